#!/bin/bash
# ./run.sh <property-id> [quick|thorough]      run one check (rebuilds the harness against /repo's working tree)
# ./run.sh replay <property-id> <replay-file>  replay one saved tape, strict (no known-finding exclusion)
# ./run.sh build [all]                          build the harness binaries only
# exit 0 = property held on everything explored; 1 = VIOLATION line printed; 2 = inconclusive (build failure, hang)
set -u
cd "$(dirname "$0")/harness" || exit 2
export CARGO_NET_OFFLINE=true
export CARGO_TERM_COLOR=never
unset RUSTFLAGS

build_one() {
  # $1 = build name
  local log
  log=$(mktemp)
  case "$1" in
    opt)       cargo build --release >"$log" 2>&1 ;;
    dbg)       cargo build --profile dbg >"$log" 2>&1 ;;
    rayon-opt) cargo build --release --features rayon --target-dir target-rayon >"$log" 2>&1 ;;
    rayon-dbg) cargo build --profile dbg --features rayon --target-dir target-rayon >"$log" 2>&1 ;;
    *) echo "unknown build $1"; rm -f "$log"; return 2 ;;
  esac
  local rc=$?
  if [ $rc -ne 0 ]; then
    echo "BUILD FAILED ($1):"
    grep -E "^(error|warning: unused)" -A 8 "$log" | head -60
    tail -n 5 "$log"
  fi
  rm -f "$log"
  return $rc
}

cmd="${1:-}"
case "$cmd" in
  build)
    build_one opt || exit 2
    build_one dbg || exit 2
    if [ "${2:-}" = "all" ]; then
      build_one rayon-opt || exit 2
      build_one rayon-dbg || exit 2
    fi
    exit 0
    ;;
  replay)
    prop="${2:?property id}"; file="${3:?replay file}"
    build_one opt || exit 2
    for b in $(./target/release/firv builds "$prop" thorough); do
      [ "$b" = opt ] || build_one "$b" || exit 2
    done
    exec ./target/release/firv replay "$prop" "$file"
    ;;
  "")
    echo "usage: $0 <property-id> [quick|thorough] | replay <property-id> <file> | build [all]"; exit 2 ;;
  *)
    prop="$cmd"; tier="${2:-${VERIF_TIER:-quick}}"
    build_one opt || exit 2
    for b in $(./target/release/firv builds "$prop" "$tier"); do
      [ "$b" = opt ] || build_one "$b" || exit 2
    done
    exec ./target/release/firv run "$prop" "$tier" "${VERIF_SEED:-1}"
    ;;
esac
