#![no_main]
//! Coverage-guided fuzzing of the C01 check: the same tape decoder and oracle as the harness,
//! in-process under ASan. A crash artefact is a tape: ./run.sh replay C01 <file containing the hex>.
use firv::outcome::{Build, Ctx, Tier};
use libfuzzer_sys::fuzz_target;
use std::sync::Once;

static INIT: Once = Once::new();

fuzz_target!(|data: &[u8]| {
    INIT.call_once(firv::runner::install_panic_hook);
    if data.len() > 400 {
        return;
    }
    let prop = firv::props::find("C01").unwrap();
    let ctx = Ctx { build: Build::current(), tier: Tier::Quick, known: Vec::new() };
    let o = firv::runner::check_in_process(prop, data, &ctx);
    if let Some(msg) = o.fail {
        eprintln!("VIOLATION property=C01 case: {}", o.desc);
        eprintln!("reason: {}", msg);
        eprintln!("tape_hex: {}", firv::tape::hex(data));
        std::process::abort();
    }
});
