#!/usr/bin/env python3
"""Regenerates MANIFEST.json from the table below (kept in one place so it stays valid)."""
import json, subprocess

HOOK_COMMITS = ["00fc0b5"]

CHECKS = {
 "C15": dict(
   technique="property-based testing: generated (src,dst,centering) tuples biased to near-equal aspect ratios against four algebraic predicates + differential resize (fit vs explicit crop)",
   text="Generated-input search (2M cases quick, 100M thorough) over sizes 1..65535 with adversarial near-equal-ratio classes; every case checked against exact predicates evaluated as the validator evaluates them; small cases also resized both ways. Exploration level: a pure-arithmetic function whose failure region (ratio comparisons near EPSILON) the generator classes aim at directly.",
   note="Trusts f64 IEEE arithmetic of the host and the harness's transcription of the four predicates; NaN centering excluded (outside the stated domain).",
   ref="DESIGN.md §3 C15"),
}

PENDING = {}

def main():
    props=[json.loads(l) for l in open('/verif/properties.jsonl')]
    checks=[]
    na=[]
    for p in props:
        pid=p['id']
        if pid in CHECKS:
            c=CHECKS[pid]
            checks.append({
              "property_id": pid,
              "quick_cmd": f"./run.sh {pid} quick",
              "thorough_cmd": f"./run.sh {pid} thorough",
              "evidence_file": f"/verif/evidence/{pid}.json",
              "replay_cmd_template": f"./run.sh replay {pid} {{path}}",
              "engine": "firv",
              "level_claimed": {"category":"exploration","text":c['text'],"design_ref":c['ref']},
              "level_note": c['note'],
              "technique": c['technique'],
            })
        else:
            na.append({"property_id":pid,"reason":PENDING.get(pid,"check not built yet in this round (work in progress; see DESIGN.md for the planned generated-input check)")})
    m={
      "version":1,
      "setup_cmd":"./setup.sh",
      "hooks":{
        "guard":"--cfg fir_verif",
        "enable":"harness/.cargo/config.toml sets rustflags = [\"--cfg\", \"fir_verif\"] for every harness build of /repo (path dependency)",
        "baseline_off_cmd":"./baseline_off.sh",
        "source_commits":HOOK_COMMITS,
        "add_only":True,
      },
      "engines":[
        {"name":"firv","path":"/verif/harness","serves_properties":sorted(CHECKS.keys()),
         "kind_free_text":"Rust harness: proptest TestRunner generating/shrinking byte tapes in the parent, hand-written tape decoders, library code only in persistent worker subprocesses (opt / debug-assertion / rayon builds), explicit oracle per property, evidence + replay files"},
      ],
      "checks":checks,
      "not_applicable":na,
      "notes":"quick = fixed work (replay tier + generated cases); thorough = 20-200x the cases and exhaustive sub-domains. Exit 2 = inconclusive (build failure / watchdog), never a violation. known_findings.json lists recorded genuine defects.",
    }
    json.dump(m,open('/verif/MANIFEST.json','w'),indent=1)
    print("checks:",len(checks),"not_applicable:",len(na))
main()
