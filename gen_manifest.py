#!/usr/bin/env python3
"""Regenerates MANIFEST.json from the table below (kept in one place so it stays valid)."""
import json, subprocess

HOOK_COMMITS = ["00fc0b5"]

CHECKS = {
 "C01": dict(
   technique="property-based testing against an independent f64 reference resampler with per-sample allowed intervals (reference model oracle)",
   text="150k (quick) / 4M (thorough) generated resizes over 13 pixel types, all size and crop classes, 7 filters x 3 algorithms, 3 back-ends, adversarial contents; every destination sample must lie in the integer/real interval an ideal separable resampling with per-pass rounding and the documented coefficient quantisation can produce (either pass order). Exploration level: the input space is unbounded; the generator classes and the measured share of single-valued intervals (>90%) say how sharp the search is.",
   note="Trusts the harness's transcription of the documented kernels / centre mapping, f64 arithmetic, and the stated allowances (one bit of fixed-point precision slack, 2^-23 relative per pass for f32, kernel-discontinuity ambiguity).",
   ref="DESIGN.md §3 C01, §8"),
 "C02": dict(
   technique="differential property-based testing: SSE4.1 / AVX2 output against the portable back-end on generated inputs incl. custom kernels forcing other fixed-point precisions",
   text="400k / 6M generated resize and MulDiv cases, each executed on None, Sse4_1 and Avx2 with the same input; integers byte-identical (16-bit alpha division +-1 on colour), floats within 2 ulp + 2^-36 of the largest magnitude. Labels report every residue class of row width, kernel length, row count and every precision reached.",
   note="Only x86_64 back-ends can run here (no NEON/WASM). Custom kernels restricted to sum|w| < 4. The portable back-end itself is judged by C01/C06.",
   ref="DESIGN.md §3 C02"),
 "C03": dict(
   technique="stateful property-based testing / fuzzing of call histories in crash-isolated worker processes on guard-paged buffers, on an optimised and a debug-assertion build, plus white-box window invariants through a read-only hook",
   text="60k / 1.5M generated histories of up to 6 hostile safe-API calls (zero sizes, NaN/inf/negative/denormal/edge-flush crops, multiplicity 0..255, finite custom kernels with huge lobes, strided views, absurd constructor dimensions, arbitrary split arguments); the oracle is survival of the worker (signals/aborts become shrinkable failures), untouched guard pages and surroundings, and no panic inside the documented sum|w| < 4 domain; geometry-only cases check the window-inside-source and clip-table-range invariants up to sizes 2^20.",
   note="An over-read that stays inside one allocation without crossing a guard page is visible only to the debug-assertion build. Custom kernel support <= 6.5 and <= 2^22 pixels per call (allocator limits are not the property). ASan libFuzzer target fuzz/api_safety complements it in the thorough tier when built.",
   ref="DESIGN.md §3 C03"),
 "C04": dict(
   technique="exhaustive enumeration of boundary-valued rectangles on small images plus property-based testing of u32 / f64 / buffer-length tuples against an exact u128 / f64 inside-predicate (model oracle, iff)",
   text="All rectangles with coordinates from an 11-value boundary set on every parent 0..4 x 0..4 through 7 constructor kinds (892k cases, every run) + 1M / 12M generated cases for rectangles, f64 crop boxes given to resize and the nine buffer constructors; accept <=> inside (both directions), accepted views verified pixel by pixel on identity-tagged parents; on optimised and overflow-checking builds.",
   note="Don't-care classes stated in the rule (empty box on the far edge, zero-area crop given to resize, error variant where two apply).",
   ref="DESIGN.md §3 C04"),
 "C05": dict(
   technique="metamorphic property-based testing with two complementary sentinels over operations x destination layouts x thread counts",
   text="40k / 800k generated operations (resize, alpha multiply/divide, colour mapping, component conversion; two-image and in-place; deliberately failing calls and zero dimensions) into exact, owned, oversized, cropped and nested-cropped destinations, on the plain and the rayon build (1,2,5,16 threads): inside identical under both pre-fills, outside equal to the pre-fill, source unchanged, Err/zero => untouched.",
   note="Sources are contiguous here (C13 varies source layouts).",
   ref="DESIGN.md §3 C05"),
 "C06": dict(
   technique="exhaustive enumeration against exact integer arithmetic (all 8-bit pairs every run; all 2^32 16-bit pairs in thorough) plus property-based testing of float pairs",
   text="Every (colour, alpha) pair of U8x2/U8x4 on 3 back-ends x multiply/divide x 56 row layouts x 4 entry points (1.2e9 component evaluations per quick run); 16-bit: boundary classes + 2^22 random pairs per type/back-end/op in quick, all 2^32 pairs in thorough; floats: 4096 bit-pattern pairs per generated tape. Oracle: exact u64 rounding / faithful-division predicate, alpha unchanged, entry points agree.",
   note="Float pairs whose quotient or reciprocal overflows are counted as out of domain.",
   ref="DESIGN.md §3 C06"),
 "C07": dict(
   technique="metamorphic property-based testing (twin images differing under alpha = 0, opaque twin, alpha plane alone)",
   text="300k / 4M generated alpha-aware resampling calls on 6 alpha types; four relations: hidden colours irrelevant, alpha 0 => colour 0, opaque == use_alpha(false), alpha plane == one-channel resize.",
   note="Calls that are plain copies belong to C12 and are not generated. Float colours finite.",
   ref="DESIGN.md §3 C07"),
 "C08": dict(
   technique="differential property-based testing over thread-pool configurations (pool of n threads x3 against pool of 1) in the rayon build, optimised and overflow-checking",
   text="5k / 100k generated operations on shapes from 1xN to sides of 65,535..131,072, pools of 2..32 threads, three repetitions each while 15 other workers load the machine; bytes must equal the 1-thread run and nothing may panic; split counters (hook) label cases where bands were really taken.",
   note="Schedules are sampled, not enumerated (the harness does not own the OS scheduler); disjointness of bands is C14's exhaustive check.",
   ref="DESIGN.md §3 C08"),
 "C09": dict(
   technique="model-based stateful property-based testing: histories on one Resizer, each step replayed on a fresh Resizer",
   text="60k / 1M generated histories of up to 12 operations (resizes of mixed pixel sizes, sizes, algorithms, alpha flags, failing calls, reset, clone, switching, set_cpu_extensions); after every step result and bytes equal a fresh Resizer's; the whole history shrinks as one tape.",
   note="Optimised and debug-assertion builds.",
   ref="DESIGN.md §3 C09"),
 "C10": dict(
   technique="invariant property-based testing on constant images plus exact partition-of-unity arithmetic on the real fixed-point coefficients (read-only hook)",
   text="400k / 6M cases: constant images of every 8-bit value / boundary 16-bit, I32, F32 values through every algorithm, filter, crop class, back-end and kernel lengths up to 2048 (8192 thorough) must stay constant; geometry-only cases prove -2^(p-1) <= V*(sum(q) - 2^p) < 2^(p-1) for every window the library actually produces.",
   note="Kernel lengths bounded at 8192 taps as the statement allows.",
   ref="DESIGN.md §3 C10"),
 "C11": dict(
   technique="property-based testing against the closed-form index law on identity-tagged images",
   text="200k / 3M generated Nearest resizes (identity-tagged I32 and random contents of all types, every crop class incl. sub-pixel edge-flush, spare source rows, guard pages): every destination pixel is a bit-exact copy of the pixel at floor(origin + (i+0.5)*scale) clamped into the image; a noise band of 4(n+4)eps accepts either neighbour.",
   note="Optimised and debug-assertion builds.",
   ref="DESIGN.md §3 C11"),
 "C12": dict(
   technique="round-trip / metamorphic property-based testing (bit-exact copy; column independence; single-pass reference model)",
   text="400k / 6M cases: same-size integer-crop calls must copy bit-exactly for every algorithm, type and alpha flag; SuperSampling with an intermediate of the destination size must equal that intermediate; one-equal-dimension calls must not mix columns (rows) and must match the 1-D reference.",
   note="-",
   ref="DESIGN.md §3 C12"),
 "C13": dict(
   technique="differential property-based testing over container / stride / offset layouts and entry points",
   text="300k / 4M logical operations, each run contiguously through the dynamic API and through 3 other placements (owned, oversized, cropped, nested; typed entry for 6 pixel types; guard pages): identical destination bytes and Result.",
   note="Typed placements cover a rotating subset of pixel types to bound monomorphisation; dynamic placements cover all 13.",
   ref="DESIGN.md §3 C13"),
 "C14": dict(
   technique="exhaustive enumeration of all views up to 8x8 (32x32 thorough) x all (start,size,parts) incl. invalid ones x both axes x split-of-split, with an exactly-once increment oracle for mutable parts",
   text="722k split requests every quick run over 9 view kinds: None <=> invalid; parts ordered, sizes floor/ceil, tags equal the band; through mutable parts every pixel is incremented exactly once and nothing else changes. 200k / 3M generated larger views.",
   note="Which parts get the extra pixel is not constrained (the statement does not say).",
   ref="DESIGN.md §3 C14"),
 "C15": dict(
   technique="property-based testing: generated (src,dst,centering) tuples biased to near-equal aspect ratios against four algebraic predicates + differential resize (fit vs explicit crop)",
   text="10M (quick) / 200M (thorough) cases over sizes 1..65535 with adversarial near-equal-ratio classes; every case checked against exact predicates evaluated as the validator evaluates them; small cases also resized both ways.",
   note="NaN centering excluded (outside the stated domain).",
   ref="DESIGN.md §3 C15"),
 "C16": dict(
   technique="exhaustive enumeration of every mapping-table entry against the f64 transfer function plus property-based testing of images with alpha at every row position",
   text="All 256/65,536 entries x 4 depth pairs x 2 directions x 2 mappers every run: |entry - ideal| <= 0.53, monotone, endpoints fixed, sRGB 8->16->8 identity; 100k / 2M generated images: colour == table, alpha == depth conversion, mismatches rejected and destination untouched.",
   note="Tolerance 0.03 above half a unit because the library builds tables in f32.",
   ref="DESIGN.md §3 C16"),
 "C17": dict(
   technique="exhaustive enumeration of integer sources and ordered sweeps of I32/F32 sources (all 2^32 bit patterns in thorough) against monotonicity / endpoint / saturation / round-trip invariants",
   text="Every supported (source, destination) pair for 1..4 channels: all 8/16-bit values; boundaries + 2^20 ordered samples per 32-bit pair in quick, all 2^32 in numeric order in thorough; plus 100k / 1M generated images incl. size / channel-count mismatches that must be rejected with the destination untouched.",
   note="'Maximum' for an I32 destination means the top bucket of the source's quantisation step.",
   ref="DESIGN.md §3 C17"),
 "C18": dict(
   technique="invariant and metamorphic property-based testing (range preservation, order preservation on generated ordered pairs) plus coefficient-sign invariant through the hook",
   text="300k / 4M cases with Box/Bilinear/Hamming/Gaussian: images confined to arbitrary bands must stay inside their per-channel range; raising source values never lowers a destination value; all quantised coefficients are non-negative.",
   note="Integers exact, floats one ulp.",
   ref="DESIGN.md §3 C18"),
}

PENDING = {}

def main():
    props=[json.loads(l) for l in open('/verif/properties.jsonl')]
    checks=[]
    na=[]
    for p in props:
        pid=p['id']
        if pid in CHECKS:
            c=CHECKS[pid]
            checks.append({
              "property_id": pid,
              "quick_cmd": f"./run.sh {pid} quick",
              "thorough_cmd": f"./run.sh {pid} thorough",
              "evidence_file": f"/verif/evidence/{pid}.json",
              "replay_cmd_template": f"./run.sh replay {pid} {{path}}",
              "engine": "firv",
              "level_claimed": {"category":"exploration","text":c['text'],"design_ref":c['ref']},
              "level_note": c['note'],
              "technique": c['technique'],
            })
        else:
            na.append({"property_id":pid,"reason":PENDING.get(pid,"check not built yet in this round (work in progress; see DESIGN.md for the planned generated-input check)")})
    m={
      "version":1,
      "setup_cmd":"./setup.sh",
      "hooks":{
        "guard":"--cfg fir_verif",
        "enable":"harness/.cargo/config.toml sets rustflags = [\"--cfg\", \"fir_verif\"] for every harness build of /repo (path dependency)",
        "baseline_off_cmd":"./baseline_off.sh",
        "source_commits":HOOK_COMMITS,
        "add_only":True,
      },
      "engines":[
        {"name":"firv","path":"/verif/harness","serves_properties":sorted(CHECKS.keys()),
         "kind_free_text":"Rust harness: proptest TestRunner generating/shrinking byte tapes in the parent, hand-written tape decoders, library code only in persistent worker subprocesses (opt / debug-assertion / rayon builds), explicit oracle per property, evidence + replay files"},
      ],
      "checks":checks,
      "not_applicable":na,
      "notes":"quick = fixed work (replay tier + generated cases); thorough = 20-200x the cases and exhaustive sub-domains. Exit 2 = inconclusive (build failure / watchdog), never a violation. known_findings.json lists recorded genuine defects.",
    }
    json.dump(m,open('/verif/MANIFEST.json','w'),indent=1)
    print("checks:",len(checks),"not_applicable:",len(na))
main()
