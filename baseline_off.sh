#!/bin/bash
# Runs the repository's own test-suite with the verification guard OFF (no --cfg fir_verif)
# and compares the set of passing tests with BASELINE.json's stable_pass list.
set -u
cd /repo
export CARGO_NET_OFFLINE=true
unset RUSTFLAGS
OUT=$(mktemp)
cargo test --workspace --no-fail-fast --offline 2>&1 | tee "$OUT" | tail -n 5
python3 - "$OUT" <<'PY'
import json,re,sys
base=json.load(open('/root/.vp/BASELINE.json'))
want=set(base['stable_pass'])
txt=open(sys.argv[1]).read()
passed=set()
cur=None
for line in txt.splitlines():
    m=re.match(r'\s*Running (?:unittests )?(\S+) \(target/\S+/deps/([A-Za-z0-9_]+)-[0-9a-f]+\)',line)
    if m:
        cur=(m.group(1),m.group(2)); continue
    m=re.match(r'\s*Doc-tests (\S+)',line)
    if m:
        cur=('doc',m.group(1)); continue
    m=re.match(r'test (\S+) \.\.\. ok',line)
    if m and cur:
        passed.add((cur,m.group(1)))
names=set()
for (src,binname),t in passed:
    if src=='doc': continue
    if binname=='resizer': names.add('resizer::bin/resizer::'+t)
    elif binname=='fast_image_resize': names.add('fast_image_resize::'+t)
    else: names.add('fast_image_resize::'+binname+'::'+t)
missing=sorted(want-names)
print('baseline stable_pass: %d, passed now: %d, missing: %d'%(len(want),len(want&names),len(missing)))
for m in missing: print('  MISSING',m)
sys.exit(1 if missing else 0)
PY
rc=$?
rm -f "$OUT"
exit $rc
