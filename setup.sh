#!/bin/bash
# Builds every harness binary from files on disk only (offline).
set -eu
cd "$(dirname "$0")"
./run.sh build all
