//! C07 — alpha-aware resizing ignores the colour of fully transparent pixels.
use crate::exec;
use crate::img::{self, Buf, Comp, Placement};
use crate::outcome::*;
use crate::spec::{crop_class_name, Profile, ResizeSpec};
use crate::tape::{fnv, Mix, Tape};
use fast_image_resize as fr;

pub static PROP: PropDef = PropDef {
    id: "C07",
    builds: opt_only,
    max_tape: 72,
    cases: |t| match t {
        Tier::Quick => 300_000,
        Tier::Thorough => 4_000_000,
    },
    fixed: no_fixed,
    check,
    rule: "tape -> an alpha-aware resampling call (6 alpha pixel types, Convolution/Interpolation/SuperSampling, 7 filters, crops, back-ends; calls that are \
           plain copies - destination size == integer crop - are C12's and never generated) on an image whose alpha plane has transparent rectangles / random zeros / \
           all-zero / all-max / gradients and random hidden colours. Relations: (1) a twin source differing only in colours under alpha = 0 gives the identical destination; \
           (2) every destination pixel with alpha 0 has colour 0; (3) a fully opaque source gives the same result as use_alpha(false) (integers exactly, floats within 2 ulp); \
           (4) the destination alpha plane equals the resize of the alpha plane alone as a one-channel image with the same options (integers exactly). 16-bit SIMD colour \
           may differ by one unit, never alpha. Non-trivial = the source has both transparent and non-transparent pixels (1,2,4) or is opaque (3); distinct = (relation set, type, sizes, crop, algorithm, alpha pattern).",
    assumptions: &["float colours are finite (NaN * 0 is NaN by IEEE and not a defect of the crate)"],
    exhaustive: not_exhaustive,
};

fn profile() -> Profile {
    let mut p = Profile::standard();
    p.pts = img::ALPHA_PTS.to_vec();
    p.alpha_chance = 256;
    p.size_weights = [10, 100, 110, 30, 6];
    p.content_classes = vec![1, 2, 3, 6, 8, 10];
    p.allow_custom = true;
    p
}

fn alpha_plane(t: &mut Tape, w: usize, h: usize, vmax: f64, is_float: bool) -> (Vec<f64>, &'static str) {
    let kind = t.below(7);
    let mut r = Mix::new(t.u32() as u64);
    let mut a = vec![0.0; w * h];
    let rnd = |r: &mut Mix| -> f64 {
        if is_float {
            r.unit()
        } else {
            (r.unit() * (vmax + 1.0)).floor().min(vmax)
        }
    };
    let name = match kind {
        0 => {
            // transparent rectangle inside random alpha
            let x0 = r.below(w as u64) as usize;
            let y0 = r.below(h as u64) as usize;
            let x1 = x0 + 1 + r.below((w - x0) as u64) as usize;
            let y1 = y0 + 1 + r.below((h - y0) as u64) as usize;
            for y in 0..h {
                for x in 0..w {
                    a[y * w + x] = if x >= x0 && x < x1 && y >= y0 && y < y1 { 0.0 } else { rnd(&mut r).max(if is_float { 1e-3 } else { 1.0 }) };
                }
            }
            "rect"
        }
        1 => {
            for v in a.iter_mut() {
                *v = if r.below(3) == 0 { 0.0 } else { rnd(&mut r) };
            }
            "random-zeros"
        }
        2 => "all-zero",
        3 => {
            for v in a.iter_mut() {
                *v = vmax;
            }
            "all-max"
        }
        4 => {
            for y in 0..h {
                for x in 0..w {
                    let tt = (x + y) as f64 / (w + h) as f64;
                    a[y * w + x] = if is_float { tt } else { (tt * vmax).floor() };
                }
            }
            "gradient"
        }
        5 => {
            // opaque with transparent holes
            for v in a.iter_mut() {
                *v = if r.below(4) == 0 { 0.0 } else { vmax };
            }
            "holes"
        }
        _ => {
            // runs of transparent / opaque / almost opaque / random alpha
            let mut left = 0u64;
            let mut k = 0u64;
            for v in a.iter_mut() {
                if left == 0 {
                    left = 1 + r.below(40);
                    k = r.below(4);
                }
                left -= 1;
                *v = match k {
                    0 => 0.0,
                    1 => vmax,
                    2 => {
                        if is_float {
                            1.0 - r.unit() * 1e-3
                        } else {
                            (vmax - 1.0 - r.below(if vmax > 255.0 { 255 } else { 3 }) as f64).max(0.0)
                        }
                    }
                    _ => rnd(&mut r),
                };
            }
            "runs"
        }
    };
    (a, name)
}

fn run(spec: &ResizeSpec, src: &[u8], o: &mut Outcome, what: &str) -> Option<Buf> {
    match exec::run_resize(spec, src, 0xA5, Placement::Heap) {
        Ok(r) => {
            if let Err(e) = &r.result {
                o.fail(format!("{}: resize returned an error: {}", what, e));
                return None;
            }
            Some(r.dst)
        }
        Err(p) => {
            o.fail(format!("{}: panic: {}", what, p));
            None
        }
    }
}

fn f32_ulps(x: f64, y: f64) -> u64 {
    let (x, y) = (x as f32, y as f32);
    if x == y {
        return 0;
    }
    let key = |v: f32| -> i64 {
        let b = v.to_bits() as i64;
        if b & 0x8000_0000 != 0 {
            -(b & 0x7FFF_FFFF)
        } else {
            b
        }
    };
    (key(x) - key(y)).unsigned_abs()
}

fn check(tape: &[u8], _ctx: &Ctx) -> Outcome {
    let mut t = Tape::new(tape);
    let mut spec = ResizeSpec::decode(&mut t, &profile());
    spec.use_alpha = true;
    if t.chance(2) {
        // large-image code paths (streaming stores, big scratch buffers)
        spec.sw = 1031 + t.range(0, 30);
        spec.sh = 1020 + t.range(0, 20);
        spec.dw = 120 + t.range(0, 60);
        spec.dh = 100 + t.range(0, 60);
        spec.crop = crate::spec::CropSpec::None;
    }
    if spec.is_copy() {
        // that call is a plain copy (C12's domain): make it resample
        spec.dw += 1;
    }
    let c = img::comp(spec.pt);
    let nch = img::channels(spec.pt);
    let is_float = c == Comp::F32;
    let vmax = if is_float { 1.0 } else { c.vmax() };
    let (sw, sh) = (spec.sw as usize, spec.sh as usize);
    let (alpha, aname) = alpha_plane(&mut t, sw, sh, vmax, is_float);
    let mut o = Outcome::new(format!("alpha pattern {}: {}", aname, spec.desc()));
    if spec.is_copy() {
        o.label("skipped:copy");
        return o;
    }
    // custom kernels: the relations hold for any kernel, the float tolerance needs its amplification
    let custom = matches!(spec.alg.filter(), Some(crate::spec::FilterSpec::Custom(_)));
    let amp = match crate::runner::catch(|| super::c02::call_abs_sum(&spec)) {
        Ok(Some((s, _))) if s < 1.0e3 => s.max(2.0),
        _ => {
            if custom {
                o.label("skipped:custom-kernel-unclassifiable-or-huge");
                return o;
            }
            2.0
        }
    };
    if custom {
        if !matches!(crate::runner::catch(|| super::c02::call_acc_safe(&spec)), Ok(Some(true))) {
            o.label("skipped:custom-accumulator-may-overflow");
            return o;
        }
        o.label("custom-kernel");
    }
    // source: generated colours, our alpha plane
    let mut src = exec::src_image(&spec, Placement::Heap);
    if is_float {
        // keep float colours moderate
        let n = sw * sh * nch;
        for i in 0..n {
            let v = img::get_comp(c, src.bytes(), i);
            if !v.is_finite() || v.abs() > 1e6 {
                img::set_comp(c, src.bytes_mut(), i, 0.5);
            }
        }
    }
    for (i, a) in alpha.iter().enumerate() {
        img::set_comp(c, src.bytes_mut(), i * nch + nch - 1, *a);
    }
    let n_transparent = alpha.iter().filter(|a| **a == 0.0).count();
    let n_opaque = alpha.iter().filter(|a| **a == vmax).count();
    let base = match run(&spec, src.bytes(), &mut o, "base") {
        Some(b) => b,
        None => return o,
    };
    let basev = img::comps_f64(spec.pt, base.bytes());
    let dpx = spec.dw as usize * spec.dh as usize;
    let simd16 = c == Comp::U16 && spec.ext != fr::CpuExtensions::None;

    // (2) destination pixels with alpha 0 have colour 0
    for p in 0..dpx {
        if basev[p * nch + nch - 1] == 0.0 {
            for ch in 0..nch - 1 {
                if basev[p * nch + ch] != 0.0 {
                    o.fail(format!(
                        "destination pixel (x={}, y={}) has alpha 0 but colour channel {} = {:?}",
                        p % spec.dw as usize,
                        p / spec.dw as usize,
                        ch,
                        basev[p * nch + ch]
                    ));
                    return o;
                }
            }
        }
    }

    // (1) twin with other hidden colours
    if n_transparent > 0 {
        let mut twin = Buf::from_bytes(src.bytes());
        let mut r = Mix::new(t.u32() as u64 ^ 0x7717);
        for (i, a) in alpha.iter().enumerate() {
            if *a == 0.0 {
                for ch in 0..nch - 1 {
                    let v = if is_float {
                        (r.unit() - 0.5) * 2e6
                    } else {
                        (r.unit() * (vmax + 1.0)).floor().min(vmax)
                    };
                    img::set_comp(c, twin.bytes_mut(), i * nch + ch, v);
                }
            }
        }
        let tw = match run(&spec, twin.bytes(), &mut o, "twin") {
            Some(b) => b,
            None => return o,
        };
        let twv = img::comps_f64(spec.pt, tw.bytes());
        for (i, (x, y)) in basev.iter().zip(&twv).enumerate() {
            if x != y {
                let p = i / nch;
                o.fail(format!(
                    "changing colours hidden under alpha = 0 changed destination (x={}, y={}, channel={}): {:?} vs {:?}",
                    p % spec.dw as usize,
                    p / spec.dw as usize,
                    i % nch,
                    x,
                    y
                ));
                return o;
            }
        }
        o.label("relation:twin");
    }

    // (4) alpha plane == resize of the alpha plane alone
    {
        let one = img::pt_of(c, 1).unwrap();
        let mut aspec = spec.clone();
        aspec.pt = one;
        aspec.use_alpha = false;
        let mut abuf = Buf::new(sw * sh * one.size());
        for (i, a) in alpha.iter().enumerate() {
            img::set_comp(c, abuf.bytes_mut(), i, *a);
        }
        let ar = match run(&aspec, abuf.bytes(), &mut o, "alpha plane alone") {
            Some(b) => b,
            None => return o,
        };
        let av = img::comps_f64(one, ar.bytes());
        let amax = alpha.iter().fold(0.0f64, |m, v| m.max(v.abs())).max(1e-30);
        for p in 0..dpx {
            let got = basev[p * nch + nch - 1];
            let want = av[p];
            let ok = if is_float {
                // the two calls run different kernels (x2/x4 vs one channel): a first-pass sample on an f32 rounding
                // boundary may round differently, one ulp at the magnitude of the alpha plane, amplified by sum|w|
                let tol = 2f64.powi(-22) * got.abs().max(want.abs()) + 2f64.powi(-23) * amp * amp * amax;
                (got - want).abs() <= tol
            } else {
                got == want
            };
            if !ok {
                o.fail(format!(
                    "destination alpha at (x={}, y={}) = {:?} but resizing the alpha plane alone gives {:?}",
                    p % spec.dw as usize,
                    p / spec.dw as usize,
                    got,
                    want
                ));
                return o;
            }
        }
        o.label("relation:alpha-plane");
    }

    // (3) opaque source == use_alpha(false)
    let mut opaque_checked = false;
    if n_opaque == sw * sh || t.chance(60) {
        let mut osrc = Buf::from_bytes(src.bytes());
        for i in 0..sw * sh {
            img::set_comp(c, osrc.bytes_mut(), i * nch + nch - 1, vmax);
        }
        let on = match run(&spec, osrc.bytes(), &mut o, "opaque, alpha on") {
            Some(b) => b,
            None => return o,
        };
        let mut s2 = spec.clone();
        s2.use_alpha = false;
        let off = match run(&s2, osrc.bytes(), &mut o, "opaque, alpha off") {
            Some(b) => b,
            None => return o,
        };
        let onv = img::comps_f64(spec.pt, on.bytes());
        let offv = img::comps_f64(spec.pt, off.bytes());
        for (i, (x, y)) in onv.iter().zip(&offv).enumerate() {
            let is_alpha = i % nch == nch - 1;
            let ok = if is_float {
                // (a kernel whose weights do not sum to 1 - a custom zero-sum kernel - does not keep alpha at 1)
                let a_res = onv[i - i % nch + nch - 1];
                f32_ulps(*x, *y) <= 2 || (x - y).abs() <= 2f64.powi(-36) || f32_ulps(a_res, 1.0) > 2
            } else if simd16 && !is_alpha {
                // the resampled alpha of an opaque image can undershoot max with sharpening filters,
                // then the 16-bit SIMD division is allowed its one unit
                (x - y).abs() <= 1.0 || onv[i - i % nch + nch - 1] != vmax
            } else {
                x == y || onv[i - i % nch + nch - 1] != vmax
            };
            if !ok {
                let p = i / nch;
                o.fail(format!(
                    "fully opaque source: alpha-aware result differs from use_alpha(false) at (x={}, y={}, channel={}): {:?} vs {:?}",
                    p % spec.dw as usize,
                    p / spec.dw as usize,
                    i % nch,
                    x,
                    y
                ));
                return o;
            }
        }
        opaque_checked = true;
        o.label("relation:opaque");
    }
    o.label(format!("type:{}", img::pt_name(spec.pt)));
    o.label(format!("alg:{}", spec.alg.kind()));
    o.label(format!("alpha:{}", aname));
    o.label(format!("crop:{}/{}", crop_class_name(spec.crop_class.0), crop_class_name(spec.crop_class.1)));
    o.label(format!("ext:{}", img::ext_name(spec.ext)));
    let mixed = n_transparent > 0 && n_transparent < sw * sh;
    if mixed || opaque_checked {
        o.nontrivial_key(fnv(
            format!(
                "{}|{}|{}|{}|{}|{}|{:?}|{}|{}",
                opaque_checked,
                img::pt_name(spec.pt),
                spec.sw,
                spec.sh,
                spec.dw,
                spec.dh,
                spec.crop_class,
                spec.alg.name(),
                aname
            )
            .as_bytes(),
        ));
    }
    o
}
