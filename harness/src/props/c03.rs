//! C03 — no input reachable through the safe API causes UB, a crash or a panic.
use crate::exec;
use crate::img::{self, Buf, Comp, Content, Placement};
use crate::layout::{self, DstOp, LKind, Layout, SrcOp};
use crate::outcome::*;
use crate::runner::catch;
use crate::spec::{self, AlgSpec, CropSpec, FilterSpec, Profile, ResizeSpec};
use crate::tape::{fnv, Tape};
use fast_image_resize as fr;
use fr::images::{Image, ImageRef, TypedImage};
use fr::pixels::{U8x4, I32};
use fr::{CpuExtensions, ImageView, ImageViewMut, IntoImageView, IntoImageViewMut, PixelType};
use std::num::NonZeroU32;

pub static PROP: PropDef = PropDef {
    id: "C03",
    builds: opt_and_dbg,
    max_tape: 360,
    cases: |t| match t {
        Tier::Quick => 60_000,
        Tier::Thorough => 1_500_000,
    },
    fixed: no_fixed,
    check,
    rule: "tape -> (a) a history of 1..6 calls on one Resizer: resize with any of 13 pixel types, sizes 0, 1, 2..9, 10..70, rarely up to 300, source and destination as plain / oversized / cropped / nested \
           containers on guard-paged buffers, crop boxes from the valid classes plus hostile ones (negative, NaN, +-inf, 1e300, -0.0, denormal, far outside, fit_into_destination with NaN/inf centering), \
           every algorithm with SuperSampling multiplicity 0..255, built-in filters and finite custom kernels incl. huge lobes, near-zero sums, denormals and asymmetric ones, alpha flag, back-end; \
           interleaved with multiply/divide alpha, colour mapping, component conversion, image constructors with absurd dimensions and split_by_* calls with arbitrary arguments; \
           (b) geometry-only white-box cases through the read-only hook with sizes up to 2^20. Oracle: the worker process survives (no signal, no abort, guard pages untouched); no panic, except that a \
           panic is tolerated when the hook reports a normalised window with sum|w| >= 4 or a non-finite weight for a convolution the call performs (unclassifiable calls count as tolerated); white-box: \
           bounds.len() == out_size, start+size <= in_size, 1 <= size <= window_size, finite weights, and for 8-bit coefficients with sum|w| < 4 the clip-table index 640 + ((+-255*sum(q+-) + round) >> p) \
           stays inside the 1280-entry table. Judged on the optimised and on the debug-assertion build. Non-trivial = a call got past the first validation and reached a kernel, a row accessor or the hook; \
           distinct = fingerprint of the decoded history / geometry.",
    assumptions: &[
        "custom kernel support is bounded by 64 and per-call pixel counts by 2^22: larger legal arguments test the allocator, not the property (OOM / abort there would be reported as inconclusive)",
        "an over-read that stays inside the same allocation and does not cross a guard page is only visible to the debug-assertion build (slice pre-condition checks) and to the ASan fuzz target",
    ],
    exhaustive: not_exhaustive,
};

fn profile() -> Profile {
    let mut p = Profile::standard();
    p.allow_nearest = true;
    p.allow_custom = false;
    p.allow_fit = true;
    p.size_weights = [40, 120, 80, 12, 4];
    p.long_max = 1024;
    p.max_multiplicity = 5;
    p
}

fn hostile_f64(t: &mut Tape, n: u32) -> f64 {
    let nf = n as f64;
    match t.below(18) {
        0 => 0.0,
        1 => -0.0,
        2 => f64::NAN,
        3 => f64::INFINITY,
        4 => f64::NEG_INFINITY,
        5 => 1e300,
        6 => -1e300,
        7 => f64::from_bits(1),
        8 => -1.0,
        9 => -(t.range(1, 1000) as f64),
        10 => nf,
        11 => spec::next_down(nf),
        12 => spec::next_up(nf),
        13 => nf * 2.0,
        14 => t.unit() * nf,
        15 => (t.range(0, n.max(1))) as f64,
        16 => 4294967296.0 * (1.0 + t.unit()),
        _ => -f64::from_bits(1),
    }
}

#[derive(Clone, Debug)]
enum Call {
    Resize { spec: ResizeSpec, slay: Layout, dlay: Layout, guard: bool },
    MulDiv { divide: bool, inplace: bool, pt: PixelType, w: u32, h: u32, dw: u32, dh: u32, dpt: PixelType, ext: CpuExtensions, lay: Layout },
    Map { srgb: bool, forward: bool, inplace: bool, pt: PixelType, dpt: PixelType, w: u32, h: u32, dw: u32, dh: u32 },
    Convert { pt: PixelType, dpt: PixelType, w: u32, h: u32, dw: u32, dh: u32 },
    Ctor { kind: u8, pt: PixelType, w: u32, h: u32, len: usize },
    Split { mutable: bool, by_width: bool, w: u32, h: u32, start: u32, size: u32, parts: u32, cropped: bool },
    Reset,
}

fn decode_call(t: &mut Tape) -> Call {
    match t.weighted(&[200, 20, 14, 14, 12, 16, 6]) {
        0 => {
            let mut s = ResizeSpec::decode(t, &profile());
            // sizes incl. zero
            match 15 - t.below(16) {
                0 => s.sw = 0,
                1 => s.sh = 0,
                2 => s.dw = 0,
                3 => s.dh = 0,
                _ => {}
            }
            // hostile crop
            if t.chance(70) {
                s.crop = CropSpec::Box {
                    l: hostile_f64(t, s.sw),
                    t: hostile_f64(t, s.sh),
                    w: hostile_f64(t, s.sw),
                    h: hostile_f64(t, s.sh),
                };
                s.crop_class = (8, 8);
            } else if t.chance(16) {
                s.crop = CropSpec::Fit(hostile_f64(t, 1), hostile_f64(t, 1));
                s.crop_class = (9, 9);
            } else if s.sw == 0 || s.sh == 0 {
                s.crop = CropSpec::None;
            }
            // hostile algorithm parameters
            if t.chance(70) {
                let f = FilterSpec::Custom(spec::decode_custom(t, true));
                s.alg = match t.below(3) {
                    0 => AlgSpec::Conv(f),
                    1 => AlgSpec::Interp(f),
                    _ => AlgSpec::Super(f, t.u8()),
                };
            } else if let AlgSpec::Super(f, _) = s.alg {
                if t.chance(100) {
                    s.alg = AlgSpec::Super(f, [0u8, 1, 2, 7, 100, 255][t.below(6) as usize]);
                }
            }
            // keep the work bounded for huge kernels: support <= 64 by construction of decode_custom (<= 6.5)
            let kinds = [LKind::Plain, LKind::Oversized, LKind::Cropped, LKind::Nested];
            let slay = Layout::decode(t, s.sw, s.sh, &kinds);
            let dlay = Layout::decode(t, s.dw, s.dh, &kinds);
            Call::Resize { spec: s, slay, dlay, guard: !t.chance(60) }
        }
        1 => {
            let pt = t.pick(&img::PT13);
            let (w, h) = (t.range(0, 40), t.range(0, 9));
            let (dw, dh) = match 7 - t.below(8) {
                0 => (w + 1, h),
                1 => (w, h.saturating_sub(1)),
                _ => (w, h),
            };
            let dpt = if t.chance(30) { t.pick(&img::PT13) } else { pt };
            let lay = Layout::decode(t, dw, dh, &[LKind::Plain, LKind::Oversized, LKind::Cropped]);
            Call::MulDiv { divide: t.bool(), inplace: t.bool(), pt, w, h, dw, dh, dpt, ext: t.pick(&img::exts()), lay }
        }
        2 => {
            let pt = t.pick(&img::PT13);
            let dpt = if t.chance(128) { pt } else { t.pick(&img::PT13) };
            let (w, h) = (t.range(0, 20), t.range(0, 6));
            let (dw, dh) = if t.chance(40) { (t.range(0, 20), t.range(0, 6)) } else { (w, h) };
            Call::Map { srgb: t.bool(), forward: t.bool(), inplace: t.bool(), pt, dpt, w, h, dw, dh }
        }
        3 => {
            let pt = t.pick(&img::PT13);
            let dpt = t.pick(&img::PT13);
            let (w, h) = (t.range(0, 20), t.range(0, 6));
            let (dw, dh) = if t.chance(40) { (t.range(0, 20), t.range(0, 6)) } else { (w, h) };
            Call::Convert { pt, dpt, w, h, dw, dh }
        }
        4 => {
            let dim = |t: &mut Tape| -> u32 {
                match t.below(8) {
                    0 => 0,
                    1 => 1 << 16,
                    2 => 1 << 31,
                    3 => u32::MAX,
                    4 => 1 << 30,
                    5 => (1 << 16) + 1,
                    _ => t.range(0, 40),
                }
            };
            Call::Ctor { kind: t.below(4) as u8, pt: t.pick(&img::PT13), w: dim(t), h: dim(t), len: t.range(0, 4096) as usize }
        }
        5 => {
            let (w, h) = (t.range(0, 12), t.range(0, 9));
            let arg = |t: &mut Tape, e: u32| -> u32 {
                match t.below(6) {
                    0 => 1,
                    1 => e,
                    2 => e + 1,
                    3 => u32::MAX,
                    4 => 0,
                    _ => t.range(0, e + 2),
                }
            };
            let by_width = t.bool();
            let e = if by_width { w } else { h };
            Call::Split { mutable: t.bool(), by_width, w, h, start: arg(t, e), size: arg(t, e), parts: arg(t, e), cropped: t.bool() }
        }
        _ => Call::Reset,
    }
}

impl Call {
    fn desc(&self) -> String {
        match self {
            Call::Resize { spec, slay, dlay, guard } => format!(
                "resize {} [src {}, dst {}{}]",
                spec.desc(),
                slay.desc(),
                dlay.desc(),
                if *guard { ", guard pages" } else { "" }
            ),
            Call::MulDiv { divide, inplace, pt, w, h, dw, dh, dpt, ext, lay } => format!(
                "{}_alpha{} {} {}x{} -> {} {}x{} ({}) on {}",
                if *divide { "divide" } else { "multiply" },
                if *inplace { "_inplace" } else { "" },
                img::pt_name(*pt),
                w,
                h,
                img::pt_name(*dpt),
                dw,
                dh,
                lay.desc(),
                img::ext_name(*ext)
            ),
            Call::Map { srgb, forward, inplace, pt, dpt, w, h, dw, dh } => format!(
                "{} {}_map{} {} {}x{} -> {} {}x{}",
                if *srgb { "srgb" } else { "gamma22" },
                if *forward { "forward" } else { "backward" },
                if *inplace { "_inplace" } else { "" },
                img::pt_name(*pt),
                w,
                h,
                img::pt_name(*dpt),
                dw,
                dh
            ),
            Call::Convert { pt, dpt, w, h, dw, dh } => {
                format!("convert {} {}x{} -> {} {}x{}", img::pt_name(*pt), w, h, img::pt_name(*dpt), dw, dh)
            }
            Call::Ctor { kind, pt, w, h, len } => format!(
                "{} {} {}x{} over {} bytes, then use it",
                ["Image::from_slice_u8", "ImageRef::new", "Image::new", "TypedImage::from_buffer"][*kind as usize % 4],
                img::pt_name(*pt),
                w,
                h,
                len
            ),
            Call::Split { mutable, by_width, w, h, start, size, parts, cropped } => format!(
                "split_by_{}{}({}, {}, {}) on a {}x{} {}",
                if *by_width { "width" } else { "height" },
                if *mutable { "_mut" } else { "" },
                start,
                size,
                parts,
                w,
                h,
                if *cropped { "cropped view" } else { "image" }
            ),
            Call::Reset => "reset_internal_buffers".to_string(),
        }
    }
}

struct ResizeOuter<'a> {
    resizer: &'a mut fr::Resizer,
    opts: &'a fr::ResizeOptions,
    dpt: PixelType,
    dlay: &'a Layout,
    dparent: &'a mut [u8],
}
struct ResizeInner<'a, S> {
    resizer: &'a mut fr::Resizer,
    opts: &'a fr::ResizeOptions,
    src: &'a S,
}
impl<'a> SrcOp for ResizeOuter<'a> {
    type Out = Result<Result<(), String>, String>;
    fn run<S: IntoImageView + Sync>(self, src: &S) -> Self::Out {
        layout::with_dst_dyn(
            self.dlay,
            self.dpt,
            self.dparent,
            ResizeInner {
                resizer: self.resizer,
                opts: self.opts,
                src,
            },
        )
    }
}
impl<'a, S: IntoImageView + Sync> DstOp for ResizeInner<'a, S> {
    type Out = Result<(), String>;
    fn run<D: IntoImageViewMut + Send>(self, dst: &mut D) -> Self::Out {
        self.resizer.resize(self.src, dst, self.opts).map_err(|e| format!("{:?}", e))
    }
}

fn filler(i: usize) -> u8 {
    ((i * 29 + 3) % 253) as u8
}

/// Is a panic of this resize tolerated (normalised window with sum|w| >= 4 / non-finite / unclassifiable)?
fn panic_tolerated(spec: &ResizeSpec) -> (bool, &'static str) {
    match spec.alg.filter() {
        None => (false, "no-kernel"),
        Some(FilterSpec::Builtin(_)) => (false, "builtin"),
        Some(FilterSpec::Custom(_)) => {
            // geometry the call resolves to; hostile crops make it unclassifiable unless rejected anyway
            let (l, t, w, h) = spec.crop_box();
            let finite = l.is_finite() && t.is_finite() && w.is_finite() && h.is_finite();
            let inside = finite && l >= 0.0 && t >= 0.0 && l + w <= spec.sw as f64 && t + h <= spec.sh as f64;
            if !inside || w <= 0.0 || h <= 0.0 || spec.dw == 0 || spec.dh == 0 || spec.sw == 0 || spec.sh == 0 {
                // the call must be rejected or is a no-op before any kernel runs
                return (false, "custom:no-kernel-runs");
            }
            if let AlgSpec::Super(_, 0) = spec.alg {
                return (true, "custom:unclassifiable(m=0)");
            }
            match catch(|| super::c02::call_abs_sum(spec)) {
                Ok(Some((s, _))) => {
                    if s < 4.0 {
                        (false, "custom:sum<4")
                    } else {
                        (true, "custom:sum>=4")
                    }
                }
                Ok(None) => (true, "custom:non-finite"),
                Err(_) => (true, "custom:unclassifiable"),
            }
        }
    }
}

fn exec_call(resizer: &mut fr::Resizer, call: &Call, o: &mut Outcome) -> Result<(), String> {
    match call {
        Call::Reset => {
            resizer.reset_internal_buffers();
            Ok(())
        }
        Call::Resize { spec, slay, dlay, guard } => {
            let placement = if *guard { Placement::GuardEnd } else { Placement::Heap };
            let content = {
                let n = spec.sw as usize * spec.sh as usize * spec.pt.size();
                let mut b = Buf::new(n);
                if spec.sw > 0 && spec.sh > 0 {
                    img::fill_content(spec.pt, spec.sw, spec.sh, spec.content, b.bytes_mut());
                }
                b
            };
            let sps = spec.pt.size();
            let sparent = slay.place(sps, content.bytes(), filler, placement);
            let dinit = vec![0xA5u8; spec.dw as usize * spec.dh as usize * sps];
            let mut dparent = dlay.place(sps, &dinit, filler, placement);
            let (tolerated, why) = panic_tolerated(spec);
            o.label(format!("kernel:{}", why));
            unsafe { resizer.set_cpu_extensions(spec.ext) };
            let opts = spec.options();
            let res = catch(|| {
                layout::with_src_dyn(
                    slay,
                    spec.pt,
                    sparent.bytes(),
                    ResizeOuter {
                        resizer,
                        opts: &opts,
                        dpt: spec.pt,
                        dlay,
                        dparent: dparent.bytes_mut(),
                    },
                )
            });
            match res {
                Err(p) => {
                    if tolerated {
                        o.label("panic-tolerated");
                        // the Resizer may have lost its buffers mid-call; that is fine
                        Ok(())
                    } else {
                        Err(format!("panic: {}", p))
                    }
                }
                Ok(Err(_)) | Ok(Ok(Err(_))) => {
                    o.label("resize:container-rejected");
                    Ok(())
                }
                Ok(Ok(Ok(r))) => {
                    if let Some(off) = dlay.outside_changed(sps, dparent.bytes(), filler) {
                        return Err(format!(
                            "a byte outside the destination view was written: offset {} ({})",
                            off,
                            dlay.locate(sps, off)
                        ));
                    }
                    match r {
                        Ok(()) => {
                            o.label("resize:ok");
                            let reached = spec.sw > 0 && spec.sh > 0 && spec.dw > 0 && spec.dh > 0;
                            if reached {
                                o.label("reached-kernel");
                            }
                        }
                        Err(e) => o.label(format!("resize:{}", e.split('(').next().unwrap_or("err"))),
                    }
                    Ok(())
                }
            }
        }
        Call::MulDiv { divide, inplace, pt, w, h, dw, dh, dpt, ext, lay } => {
            let mut src = Buf::placed(*w as usize * *h as usize * pt.size(), Placement::GuardEnd);
            if *w > 0 && *h > 0 {
                img::fill_content(*pt, *w, *h, Content { class: 1, seed: 7 }, src.bytes_mut());
            }
            let dps = dpt.size();
            let dinit = vec![0x3Cu8; *dw as usize * *dh as usize * dps];
            let mut dparent = lay.place(dps, &dinit, filler, Placement::GuardEnd);
            struct Md<'a> {
                divide: bool,
                inplace: bool,
                ext: CpuExtensions,
                src: &'a [u8],
                pt: PixelType,
                w: u32,
                h: u32,
            }
            impl<'a> DstOp for Md<'a> {
                type Out = Result<(), String>;
                fn run<D: IntoImageViewMut + Send>(self, dst: &mut D) -> Self::Out {
                    let md = img::new_muldiv(self.ext);
                    if self.inplace {
                        if self.divide {
                            md.divide_alpha_inplace(dst).map_err(|e| format!("{:?}", e))
                        } else {
                            md.multiply_alpha_inplace(dst).map_err(|e| format!("{:?}", e))
                        }
                    } else {
                        let s = ImageRef::new(self.w, self.h, self.src, self.pt).map_err(|e| format!("{:?}", e))?;
                        if self.divide {
                            md.divide_alpha(&s, dst).map_err(|e| format!("{:?}", e))
                        } else {
                            md.multiply_alpha(&s, dst).map_err(|e| format!("{:?}", e))
                        }
                    }
                }
            }
            let r = catch(|| {
                layout::with_dst_dyn(
                    lay,
                    *dpt,
                    dparent.bytes_mut(),
                    Md { divide: *divide, inplace: *inplace, ext: *ext, src: src.bytes(), pt: *pt, w: *w, h: *h },
                )
            });
            match r {
                Err(p) => Err(format!("panic: {}", p)),
                Ok(Err(_)) => Ok(()),
                Ok(Ok(res)) => {
                    if let Some(off) = lay.outside_changed(dps, dparent.bytes(), filler) {
                        return Err(format!("a byte outside the destination view was written: offset {} ({})", off, lay.locate(dps, off)));
                    }
                    o.label(format!("muldiv:{}", if res.is_ok() { "ok" } else { "err" }));
                    if res.is_ok() && *dw > 0 && *dh > 0 {
                        o.label("reached-kernel");
                    }
                    Ok(())
                }
            }
        }
        Call::Map { srgb, forward, inplace, pt, dpt, w, h, dw, dh } => {
            let mut src = Buf::placed(*w as usize * *h as usize * pt.size(), Placement::GuardEnd);
            if *w > 0 && *h > 0 {
                img::fill_content(*pt, *w, *h, Content { class: 1, seed: 9 }, src.bytes_mut());
            }
            let mut dst = Buf::placed(*dw as usize * *dh as usize * dpt.size(), Placement::GuardEnd);
            let r = catch(|| -> Result<(), String> {
                let m = if *srgb { exec::srgb_mapper() } else { exec::gamma22_mapper() };
                let mut d = Image::from_slice_u8(*dw, *dh, dst.bytes_mut(), *dpt).map_err(|e| format!("{:?}", e))?;
                if *inplace {
                    if *forward {
                        m.forward_map_inplace(&mut d).map_err(|e| format!("{:?}", e))
                    } else {
                        m.backward_map_inplace(&mut d).map_err(|e| format!("{:?}", e))
                    }
                } else {
                    let s = ImageRef::new(*w, *h, src.bytes(), *pt).map_err(|e| format!("{:?}", e))?;
                    if *forward {
                        m.forward_map(&s, &mut d).map_err(|e| format!("{:?}", e))
                    } else {
                        m.backward_map(&s, &mut d).map_err(|e| format!("{:?}", e))
                    }
                }
            });
            match r {
                Err(p) => Err(format!("panic: {}", p)),
                Ok(res) => {
                    o.label(format!("map:{}", if res.is_ok() { "ok" } else { "err" }));
                    if res.is_ok() && *dw > 0 && *dh > 0 {
                        o.label("reached-kernel");
                    }
                    Ok(())
                }
            }
        }
        Call::Convert { pt, dpt, w, h, dw, dh } => {
            let mut src = Buf::placed(*w as usize * *h as usize * pt.size(), Placement::GuardEnd);
            if *w > 0 && *h > 0 {
                img::fill_content(*pt, *w, *h, Content { class: 9, seed: 11 }, src.bytes_mut());
            }
            let mut dst = Buf::placed(*dw as usize * *dh as usize * dpt.size(), Placement::GuardEnd);
            let r = catch(|| -> Result<(), String> {
                let s = ImageRef::new(*w, *h, src.bytes(), *pt).map_err(|e| format!("{:?}", e))?;
                let mut d = Image::from_slice_u8(*dw, *dh, dst.bytes_mut(), *dpt).map_err(|e| format!("{:?}", e))?;
                fr::change_type_of_pixel_components(&s, &mut d).map_err(|e| format!("{:?}", e))
            });
            match r {
                Err(p) => Err(format!("panic: {}", p)),
                Ok(res) => {
                    o.label(format!("convert:{}", if res.is_ok() { "ok" } else { "err" }));
                    if res.is_ok() && *dw > 0 && *dh > 0 {
                        o.label("reached-kernel");
                    }
                    Ok(())
                }
            }
        }
        Call::Ctor { kind, pt, w, h, len } => {
            // absurd dimensions: the constructor may reject, but an accepted image must be usable
            let need = *w as u128 * *h as u128 * pt.size() as u128;
            let mut buf = Buf::placed(*len, Placement::GuardStart);
            let mut small = Buf::new(4 * 16);
            let r = catch(|| -> Result<&'static str, String> {
                let opts = fr::ResizeOptions::new().resize_alg(fr::ResizeAlg::Nearest);
                let mut rz = fr::Resizer::new();
                match kind % 4 {
                    0 => match Image::from_slice_u8(*w, *h, buf.bytes_mut(), *pt) {
                        Err(_) => Ok("rejected"),
                        Ok(mut im) => {
                            if need > *len as u128 {
                                return Err("an image larger than its buffer was accepted".to_string());
                            }
                            let s = Image::new(2, 2, *pt);
                            let _ = rz.resize(&s, &mut im, &opts);
                            Ok("used")
                        }
                    },
                    1 => match ImageRef::new(*w, *h, buf.bytes(), *pt) {
                        Err(_) => Ok("rejected"),
                        Ok(im) => {
                            if need > *len as u128 {
                                return Err("an image larger than its buffer was accepted".to_string());
                            }
                            let mut d = Image::from_slice_u8(2, 2, &mut small.bytes_mut()[..4 * pt.size()], *pt).map_err(|e| format!("{:?}", e))?;
                            let _ = rz.resize(&im, &mut d, &opts);
                            Ok("used")
                        }
                    },
                    2 => {
                        // Image::new allocates: only sizes whose true requirement is small, or that wrap around
                        if need > (1 << 22) && need < (1u128 << 64) {
                            return Ok("skipped-allocation");
                        }
                        if need >= (1u128 << 64) {
                            // cannot exist: the constructor has no error path, a panic is the only honest answer
                            let r = std::panic::catch_unwind(|| Image::new(*w, *h, *pt));
                            return match r {
                                Err(_) => Ok("panicked-on-impossible-size"),
                                Ok(im) => {
                                    if (im.buffer().len() as u128) < need {
                                        Err(format!("Image::new({}, {}) returned an image whose buffer has only {} bytes", w, h, im.buffer().len()))
                                    } else {
                                        Ok("used")
                                    }
                                }
                            };
                        }
                        let im = Image::new(*w, *h, *pt);
                        let mut d = Image::from_slice_u8(2, 2, &mut small.bytes_mut()[..4 * pt.size()], *pt).map_err(|e| format!("{:?}", e))?;
                        let _ = rz.resize(&im, &mut d, &opts);
                        Ok("used")
                    }
                    _ => match TypedImage::<U8x4>::from_buffer(*w, *h, buf.bytes_mut()) {
                        Err(_) => Ok("rejected"),
                        Ok(im) => {
                            if *w as u128 * *h as u128 * 4 > *len as u128 {
                                return Err("a typed image larger than its buffer was accepted".to_string());
                            }
                            let n: usize = im.iter_rows(0).map(|r| r.len()).sum();
                            if n as u128 != *w as u128 * *h as u128 {
                                return Err(format!("typed image of {}x{} exposes {} pixels", w, h, n));
                            }
                            Ok("used")
                        }
                    },
                }
            });
            match r {
                Err(p) => Err(format!("panic: {}", p)),
                Ok(Err(e)) => Err(e),
                Ok(Ok(what)) => {
                    o.label(format!("ctor:{}", what));
                    Ok(())
                }
            }
        }
        Call::Split { mutable, by_width, w, h, start, size, parts, cropped } => {
            let (pw, ph, l, tp) = if *cropped { (w + 2, h + 2, 1, 1) } else { (*w, *h, 0, 0) };
            let mut parent = Buf::placed(pw as usize * ph as usize * 4, Placement::GuardEnd);
            let (Some(size), Some(parts)) = (NonZeroU32::new(*size), NonZeroU32::new(*parts)) else {
                o.label("split:zero-arg-unrepresentable");
                return Ok(());
            };
            let r = catch(|| -> Result<Option<usize>, String> {
                let mut p = TypedImage::<I32>::from_buffer(pw, ph, parent.bytes_mut()).map_err(|e| format!("{:?}", e))?;
                fn touch<V: ImageViewMut<Pixel = I32>>(parts: Option<Vec<V>>) -> Option<usize> {
                    parts.map(|mut ps| {
                        let mut n = 0;
                        for p in ps.iter_mut() {
                            for row in p.iter_rows_mut(0) {
                                for px in row.iter_mut() {
                                    px.0 = px.0.wrapping_add(1);
                                    n += 1;
                                }
                            }
                        }
                        n
                    })
                }
                fn look<V: ImageView<Pixel = I32>>(parts: Option<Vec<V>>) -> Option<usize> {
                    parts.map(|ps| ps.iter().map(|p| p.iter_rows(0).map(|r| r.len()).sum::<usize>()).sum())
                }
                if *cropped {
                    let mut c = fr::images::TypedCroppedImageMut::from_ref(&mut p, l, tp, *w, *h).map_err(|e| format!("{:?}", e))?;
                    Ok(match (*mutable, *by_width) {
                        (true, true) => touch(c.split_by_width_mut(*start, size, parts)),
                        (true, false) => touch(c.split_by_height_mut(*start, size, parts)),
                        (false, true) => look(c.split_by_width(*start, size, parts)),
                        (false, false) => look(c.split_by_height(*start, size, parts)),
                    })
                } else {
                    Ok(match (*mutable, *by_width) {
                        (true, true) => touch(p.split_by_width_mut(*start, size, parts)),
                        (true, false) => touch(p.split_by_height_mut(*start, size, parts)),
                        (false, true) => look(p.split_by_width(*start, size, parts)),
                        (false, false) => look(p.split_by_height(*start, size, parts)),
                    })
                }
            });
            match r {
                Err(p) => Err(format!("panic: {}", p)),
                Ok(Err(_)) => Ok(()),
                Ok(Ok(n)) => {
                    o.label(format!("split:{}", if n.is_some() { "some" } else { "none" }));
                    if n.is_some() {
                        o.label("reached-kernel");
                    }
                    Ok(())
                }
            }
        }
    }
}

// ------------------------------------------------------------------ white-box geometry

fn whitebox(t: &mut Tape) -> Outcome {
    let big = t.chance(60);
    let in_size = if big { t.range(1, 1 << 20) } else { t.range(1, 300) };
    let out = if big {
        if t.bool() {
            t.range(1, 4)
        } else {
            t.range(1, 1 << 12)
        }
    } else {
        t.range(1, 300)
    };
    let hostile = t.chance(60);
    let (l, w) = if hostile {
        (hostile_f64(t, in_size), hostile_f64(t, in_size))
    } else if t.bool() {
        let (l, w, _) = spec::decode_crop_axis(t, in_size);
        (l, w)
    } else {
        (0.0, in_size as f64)
    };
    let custom = t.chance(90);
    let f = if custom { FilterSpec::Custom(spec::decode_custom(t, true)) } else { FilterSpec::Builtin(t.below(7) as u8) };
    let adaptive = !t.chance(64);
    let mut o = Outcome::new(format!(
        "coefficients: in={} range=({:?},+{:?}) out={} filter={} adaptive={}",
        in_size,
        l,
        w,
        out,
        f.name(),
        adaptive
    ));
    // only geometries the validator lets through reach precompute_coefficients
    let valid = l.is_finite() && w.is_finite() && l >= 0.0 && w > 0.0 && l < in_size as f64 && l + w <= in_size as f64;
    if !valid {
        o.label("whitebox:rejected-by-validator");
        return o;
    }
    let support = match f {
        FilterSpec::Builtin(i) => crate::model::support(i),
        FilterSpec::Custom(p) => p.support,
    };
    let scale = (w / out as f64).max(1.0);
    let window = 2.0 * support * if adaptive { scale } else { 1.0 } + 3.0;
    if window * out as f64 > 2.0e7 {
        o.label("skipped:too-large");
        return o;
    }
    let ft = f.to_fr();
    let d = match catch(|| fr::verif::coefficients(in_size, l, l + w, out, ft, adaptive, false, false)) {
        Ok(d) => d,
        Err(p) => {
            o.fail(format!("panic while computing coefficients: {}", p));
            return o;
        }
    };
    if d.bounds.len() != out as usize {
        o.fail(format!("{} bounds for {} output samples", d.bounds.len(), out));
        return o;
    }
    if d.values.len() != d.window_size * out as usize {
        o.fail(format!("{} weights for window size {} x {} outputs", d.values.len(), d.window_size, out));
        return o;
    }
    let mut finite = true;
    let mut worst: f64 = 0.0;
    for (i, (start, size)) in d.bounds.iter().enumerate() {
        if *size as usize > d.window_size {
            o.fail(format!("window {}: size {} exceeds the window size {}", i, size, d.window_size));
            return o;
        }
        if *start as u64 + *size as u64 > in_size as u64 {
            o.fail(format!("window {}: [{}, {}) reaches outside the source of size {}", i, start, *start as u64 + *size as u64, in_size));
            return o;
        }
        if *size == 0 {
            o.fail(format!("window {} is empty: the output sample would be written as zero", i));
            return o;
        }
        let ws = &d.values[i * d.window_size..i * d.window_size + *size as usize];
        let mut s = 0.0;
        let mut sum = 0.0;
        for w in ws {
            if !w.is_finite() {
                finite = false;
            }
            s += w.abs();
            sum += *w;
        }
        worst = worst.max(s);
        if !custom && (sum - 1.0).abs() > 1e-9 {
            o.fail(format!("window {}: built-in filter weights sum to {:?}", i, sum));
            return o;
        }
    }
    o.label(format!("whitebox:{}", if custom { "custom" } else { "builtin" }));
    // clip table of the 8-bit fixed point path
    if finite && worst < 4.0 {
        match catch(|| fr::verif::coefficients(in_size, l, l + w, out, ft, adaptive, true, true)) {
            Err(p) => {
                o.fail(format!("panic in the fixed-point normaliser although sum|w| = {:.3} < 4: {}", worst, p));
                return o;
            }
            Ok(d2) => {
                if let Some((p, chunks)) = &d2.precision16 {
                    if *p == 0 || *p == 11 || *p > 21 {
                        o.fail(format!("8-bit precision {} has no SIMD dispatch arm although sum|w| = {:.3} < 4", p, worst));
                        return o;
                    }
                    let round = 1i64 << (*p - 1);
                    for (start, q) in chunks {
                        let pos: i64 = q.iter().filter(|x| **x > 0).map(|x| *x as i64).sum();
                        let neg: i64 = q.iter().filter(|x| **x < 0).map(|x| *x as i64).sum();
                        let hi = 640 + ((255 * pos + round) >> *p);
                        let lo = 640 + ((255 * neg + round) >> *p);
                        // the exact weights keep the value inside the table when 255*(1+S)/2 <= 639; the quantised ones
                        // may exceed that by up to half a unit of 2^-p per tap, so only assert with that margin
                        // (since the F4 fix the index is clamped anyway; this guards the fixed-point design itself)
                        let margin = q.len() as f64 * 255.0 / 2f64.powi(*p as i32 + 1) + 1.0;
                        let in_design = 255.0 * (1.0 + worst) / 2.0 + margin <= 639.0;
                        if in_design && (!(0..1280).contains(&hi) || !(0..1280).contains(&lo)) {
                            o.fail(format!(
                                "window at {}: clip-table index range [{}, {}] leaves the 1280-entry table although sum|w| = {:.3} < 4",
                                start, lo, hi, worst
                            ));
                            return o;
                        }
                    }
                    o.label(format!("whitebox:precision16:{}", p));
                }
                if let Some((p, chunks)) = &d2.precision32 {
                    if *p == 0 || *p > 45 {
                        o.fail(format!("16-bit precision {} outside 1..=45 although sum|w| = {:.3} < 4", p, worst));
                        return o;
                    }
                    let _ = chunks;
                }
            }
        }
        o.label("whitebox:sum<4");
    } else {
        o.label("whitebox:sum>=4-or-nonfinite");
    }
    o.label("reached-kernel");
    o.nontrivial_key(fnv(o.desc.as_bytes()));
    o
}

fn check(tape: &[u8], _ctx: &Ctx) -> Outcome {
    let mut t = Tape::new(tape);
    if t.chance(64) {
        return whitebox(&mut t);
    }
    let n = 1 + t.below(6) as usize;
    let mut calls = Vec::new();
    for _ in 0..n {
        if t.exhausted() && !calls.is_empty() {
            break;
        }
        calls.push(decode_call(&mut t));
    }
    let mut o = Outcome::new(String::new());
    let mut desc = String::new();
    let mut resizer = fr::Resizer::new();
    for (i, c) in calls.iter().enumerate() {
        desc.push_str(&format!("[{}] {}; ", i, c.desc()));
        o.desc = desc.clone();
        if let Err(e) = exec_call(&mut resizer, c, &mut o) {
            o.fail(format!("call {}: {}", i, e));
            return o;
        }
    }
    o.label(format!("history-length:{}", calls.len()));
    if o.labels.iter().any(|(l, _)| l == "reached-kernel") {
        o.nontrivial_key(fnv(desc.as_bytes()));
    }
    let _ = Comp::U8;
    o
}
