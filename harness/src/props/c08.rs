//! C08 — with the rayon feature the result is independent of thread count and schedule.
use crate::exec;
use crate::img::{self, Buf, Comp, Content, Placement};
use crate::layout::{self, DstOp, LKind, Layout};
use crate::outcome::*;
use crate::runner::catch;
use crate::spec::{AlgSpec, CropSpec, FilterSpec, ResizeSpec};
use crate::tape::{fnv, Tape};
use fast_image_resize as fr;
use fr::images::{Image, ImageRef};
use fr::{CpuExtensions, PixelType};

pub static PROP: PropDef = PropDef {
    id: "C08",
    builds: |_| vec![Build::RayonOpt, Build::RayonDbg],
    max_tape: 64,
    cases: |t| match t {
        Tier::Quick => 5_000,
        Tier::Thorough => 100_000,
    },
    fixed: no_fixed,
    check,
    rule: "rayon build. tape -> an operation {resize: horizontal-only, vertical-only or two-pass, Nearest/Convolution/Interpolation/SuperSampling, alpha on/off | multiply/divide alpha, \
           two-image or in-place} on all pixel-type families, with shapes 1xN, Nx1, small, square, very tall / very wide (up to 3000) and images with a side of 65,535 / 65,536 / 65,537 / 92,682 / \
           131,072 and 1..4 pixels across (where the band-count arithmetic exceeds 32 bits), run in a thread pool of 1 thread (reference) and then three times in a pool of n threads, \
           n in 2..32 (also more threads than rows), while the other 15 harness workers load the machine. Oracle: no panic, and bytes identical to the 1-thread run. The read-only split counters \
           label whether a split into bands was really taken. Non-trivial = a band split was taken in the multi-threaded runs; distinct = (operation, type, shapes, threads).",
    assumptions: &[
        "OS schedules are sampled by repetition and pool size, not enumerated (the harness does not own the scheduler); the deterministic part - band offsets and sizes - is decided by C14 and by the comparison with the 1-thread run",
    ],
    exhaustive: not_exhaustive,
};

#[cfg(feature = "rayon")]
fn split_counters() -> (usize, usize) {
    fr::verif::split_counters()
}
#[cfg(not(feature = "rayon"))]
fn split_counters() -> (usize, usize) {
    (0, 0)
}

const HUGE: [u32; 5] = [65535, 65536, 65537, 92682, 131072];

fn shape(t: &mut Tape) -> (u32, u32, &'static str) {
    match t.weighted(&[60, 40, 40, 40, 36, 40, 30]) {
        6 => (t.range(600, 3000), t.range(2, 32), "strip"),
        0 => (t.range(1, 70), t.range(1, 70), "small"),
        1 => (t.range(1, 4), t.range(100, 3000), "tall"),
        2 => (t.range(100, 3000), t.range(1, 4), "wide"),
        3 => (t.range(70, 600), t.range(70, 600), "square"),
        4 => (t.range(1, 3), t.pick(&HUGE), "huge-tall"),
        _ => (t.pick(&HUGE), t.range(1, 3), "huge-wide"),
    }
}

#[derive(Clone, Debug)]
enum Op {
    Resize(ResizeSpec, Layout, Layout),
    MulDiv { divide: bool, inplace: bool, pt: PixelType, w: u32, h: u32, ext: CpuExtensions, content: Content },
}

fn run_op(op: &Op, src: &[u8], threads: u32) -> Result<(Result<(), String>, Buf), String> {
    match op {
        Op::Resize(spec, lay, slay) => {
            let ps = spec.pt.size();
            let init = vec![0xA5u8; spec.dw as usize * spec.dh as usize * ps];
            let mut parent = lay.place(ps, &init, |i| (i % 251) as u8, Placement::Heap);
            let sparent = slay.place(ps, src, |i| (i * 7 % 253) as u8, Placement::Heap);
            let opts = spec.options();
            struct Outer<'a> {
                spec: &'a ResizeSpec,
                opts: &'a fr::ResizeOptions,
                threads: u32,
                lay: &'a Layout,
                parent: &'a mut [u8],
            }
            struct Inner<'a, S> {
                spec: &'a ResizeSpec,
                opts: &'a fr::ResizeOptions,
                threads: u32,
                src: &'a S,
            }
            impl<'a> layout::SrcOp for Outer<'a> {
                type Out = Result<Result<Result<(), String>, String>, String>;
                fn run<S: fr::IntoImageView + Sync>(self, s: &S) -> Self::Out {
                    layout::with_dst_dyn(
                        self.lay,
                        self.spec.pt,
                        self.parent,
                        Inner { spec: self.spec, opts: self.opts, threads: self.threads, src: s },
                    )
                }
            }
            impl<'a, S: fr::IntoImageView + Sync> DstOp for Inner<'a, S> {
                type Out = Result<Result<(), String>, String>;
                fn run<D: fr::IntoImageViewMut + Send>(self, dst: &mut D) -> Self::Out {
                    let (spec, opts, src) = (self.spec, self.opts, self.src);
                    catch(|| {
                        exec::in_pool(self.threads, || {
                            let mut rz = img::new_resizer(spec.ext);
                            rz.resize(src, dst, opts).map_err(|e| format!("{:?}", e))
                        })
                    })
                }
            }
            let r = layout::with_src_dyn(
                slay,
                spec.pt,
                sparent.bytes(),
                Outer { spec, opts: &opts, threads, lay, parent: parent.bytes_mut() },
            )
            .map_err(|e| format!("source container rejected: {}", e))?
            .map_err(|e| format!("destination container rejected: {}", e))??;
            if let Some(off) = lay.outside_changed(ps, parent.bytes(), |i| (i % 251) as u8) {
                return Err(format!(
                    "bytes outside the destination view were modified at offset {} ({})",
                    off,
                    lay.locate(ps, off)
                ));
            }
            let out = Buf::from_bytes(&lay.extract(ps, parent.bytes()));
            Ok((r, out))
        }
        Op::MulDiv { divide, inplace, pt, w, h, ext, .. } => {
            let len = *w as usize * *h as usize * pt.size();
            let mut dst = Buf::new(len);
            if *inplace {
                dst.bytes_mut().copy_from_slice(src);
            } else {
                dst.fill(0xA5);
            }
            let r = catch(|| {
                exec::in_pool(threads, || {
                    let md = img::new_muldiv(*ext);
                    let mut d = Image::from_slice_u8(*w, *h, dst.bytes_mut(), *pt).map_err(|e| format!("{:?}", e))?;
                    if *inplace {
                        if *divide {
                            md.divide_alpha_inplace(&mut d).map_err(|e| format!("{:?}", e))
                        } else {
                            md.multiply_alpha_inplace(&mut d).map_err(|e| format!("{:?}", e))
                        }
                    } else {
                        let s = ImageRef::new(*w, *h, src, *pt).map_err(|e| format!("{:?}", e))?;
                        if *divide {
                            md.divide_alpha(&s, &mut d).map_err(|e| format!("{:?}", e))
                        } else {
                            md.multiply_alpha(&s, &mut d).map_err(|e| format!("{:?}", e))
                        }
                    }
                })
            })?;
            Ok((r, dst))
        }
    }
}

fn check(tape: &[u8], _ctx: &Ctx) -> Outcome {
    let mut t = Tape::new(tape);
    let is_muldiv = t.chance(60);
    let ext = t.pick(&img::exts());
    let (sw, sh, sname) = shape(&mut t);
    let content = Content {
        class: t.pick(&[1u8, 2, 3, 8]),
        seed: t.u32() as u64,
    };
    let (op, desc) = if is_muldiv {
        let pt = t.pick(&img::ALPHA_PTS);
        let divide = t.bool();
        let inplace = t.bool();
        (
            Op::MulDiv { divide, inplace, pt, w: sw, h: sh, ext, content },
            format!(
                "{}_alpha{} {} {}x{} ({}) on {}",
                if divide { "divide" } else { "multiply" },
                if inplace { "_inplace" } else { "" },
                img::pt_name(pt),
                sw,
                sh,
                sname,
                img::ext_name(ext)
            ),
        )
    } else {
        let pt = t.pick(&img::PT13);
        let passes = t.below(3); // 0 both, 1 horizontal only, 2 vertical only
        let scale = |t: &mut Tape, v: u32| -> u32 {
            match t.below(4) {
                0 => (v / 2).max(1),
                1 => v + 1 + t.range(0, 3),
                2 => (v.saturating_mul(2)).min(131072 + 7),
                _ => t.range(1, 70),
            }
        };
        let (mut dw, mut dh) = (scale(&mut t, sw), scale(&mut t, sh));
        match passes {
            1 => dh = sh,
            2 => dw = sw,
            _ => {}
        }
        let _ = (&mut dw, &mut dh);
        // keep the destination below 2^22 pixels
        while dw as u64 * dh as u64 > (1 << 21) {
            if dw >= dh && passes != 2 {
                dw = (dw / 2).max(1)
            } else if passes != 1 {
                dh = (dh / 2).max(1)
            } else {
                dw = (dw / 2).max(1)
            }
        }
        let alg = match t.below(6) {
            0 => AlgSpec::Nearest,
            1 | 2 => AlgSpec::Conv(FilterSpec::Builtin(t.below(7) as u8)),
            3 => AlgSpec::Interp(FilterSpec::Builtin(t.below(7) as u8)),
            4 => AlgSpec::Super(FilterSpec::Builtin(t.below(7) as u8), 1 + t.below(3) as u8),
            _ => AlgSpec::Conv(FilterSpec::Builtin(1)),
        };
        let crop = if t.chance(90) && sw > 2 && sh > 2 {
            // a crop whose first used row / column is not 0, so that the passes run with a source offset
            let top = [1.0, 3.0, (sh / 2) as f64][t.below(3) as usize].min(sh as f64 - 2.0).max(0.0);
            let left = [1.0, 0.0, (sw / 3) as f64][t.below(3) as usize].min(sw as f64 - 2.0).max(0.0);
            let frac = if t.bool() { 0.25 } else { 0.0 };
            CropSpec::Box { l: left, t: top, w: sw as f64 - left - frac * 2.0, h: sh as f64 - top - frac }
        } else {
            CropSpec::None
        };
        if let CropSpec::Box { w, h, .. } = crop {
            if passes == 1 && h == h.round() && h >= 1.0 {
                dh = h as u32;
            }
            if passes == 2 && w == w.round() && w >= 1.0 {
                dw = w as u32;
            }
        }
        let spec = ResizeSpec {
            pt,
            sw,
            sh,
            dw,
            dh,
            crop,
            crop_class: (0, 0),
            alg,
            use_alpha: t.bool(),
            ext,
            content,
        };
        let lay = if t.chance(90) {
            Layout::decode(&mut t, spec.dw, spec.dh, &[LKind::Cropped, LKind::Nested, LKind::Oversized])
        } else {
            Layout::plain(spec.dw, spec.dh)
        };
        let slay = if t.chance(80) {
            Layout::decode(&mut t, spec.sw, spec.sh, &[LKind::Cropped, LKind::Nested, LKind::CroppedMutAsSrc])
        } else {
            Layout::plain(spec.sw, spec.sh)
        };
        let d = format!("resize ({}) {} from {} into {}", sname, spec.desc(), slay.desc(), lay.desc());
        (Op::Resize(spec, lay, slay), d)
    };
    let mut threads = match t.below(4) {
        0 => 2,
        1 => t.range(2, 8),
        2 => t.range(9, 32),
        _ => 16,
    };
    if sname == "strip" && t.bool() {
        // at least one thread per row: one-row bands
        threads = threads.max(sh).min(32);
    }
    let mut o = Outcome::new(format!("{} ; pool of {} threads x3 vs pool of 1", desc, threads));
    let (pt, w, h) = match &op {
        Op::Resize(s, _, _) => (s.pt, s.sw, s.sh),
        Op::MulDiv { pt, w, h, .. } => (*pt, *w, *h),
    };
    let mut src = img::make_image(pt, w, h, content, Placement::Heap);
    if img::comp(pt) == Comp::F32 {
        let n = src.len() / 4;
        for i in 0..n {
            let v = img::get_comp(Comp::F32, src.bytes(), i);
            if !v.is_finite() || v.abs() > 1e6 {
                img::set_comp(Comp::F32, src.bytes_mut(), i, 0.5);
            }
        }
    }
    let (rref, dref) = match run_op(&op, src.bytes(), 1) {
        Ok(x) => x,
        Err(p) => {
            o.fail(format!("failure in the 1-thread pool: {}", p));
            return o;
        }
    };
    let (h0, v0) = split_counters();
    for rep in 0..3 {
        match run_op(&op, src.bytes(), threads) {
            Err(p) => {
                o.fail(format!("failure in a pool of {} threads (repetition {}): {}", threads, rep, p));
                return o;
            }
            Ok((r, d)) => {
                if r != rref {
                    o.fail(format!("pool of {} threads returned {:?}, pool of 1 returned {:?}", threads, r, rref));
                    return o;
                }
                if let Some(i) = img::bytes_diff(dref.bytes(), d.bytes()) {
                    let ps = pt.size();
                    o.fail(format!(
                        "pool of {} threads (repetition {}): byte {} (pixel {}) differs from the 1-thread result: {:#04x} vs {:#04x}",
                        threads,
                        rep,
                        i,
                        i / ps,
                        d.bytes()[i],
                        dref.bytes()[i]
                    ));
                    return o;
                }
            }
        }
    }
    let (h1, v1) = split_counters();
    let split = h1 > h0 || v1 > v0;
    if h1 > h0 {
        o.label("split:by-rows");
    }
    if v1 > v0 {
        o.label("split:by-columns");
    }
    if !split {
        o.label("split:none");
    }
    o.label(format!("shape:{}", sname));
    o.label(format!("op:{}", if is_muldiv { "muldiv" } else { "resize" }));
    o.label(format!("threads:{}", if threads <= 8 { "2-8" } else { "9-32" }));
    if split && rref.is_ok() {
        o.nontrivial_key(fnv(format!("{}|{}", desc, threads).as_bytes()));
    }
    o
}
