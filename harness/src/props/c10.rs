//! C10 — a uniform image stays uniform: weights form a partition of unity.
use crate::exec;
use crate::img::{self, Comp, Placement};
use crate::outcome::*;
use crate::runner::catch;
use crate::spec::{crop_class_name, AlgSpec, FilterSpec, Profile, ResizeSpec, BUILTIN_NAMES};
use crate::tape::{fnv, Tape};
use fast_image_resize as fr;

pub static PROP: PropDef = PropDef {
    id: "C10",
    builds: opt_only,
    max_tape: 64,
    cases: |t| match t {
        Tier::Quick => 400_000,
        Tier::Thorough => 6_000_000,
    },
    fixed: no_fixed,
    check,
    rule: "tape -> either (a) a resize of a constant image: 13 pixel types, value = any of the 256 byte values (8-bit), {0,1,2,V/2,V-1,V,random} (16-bit), \
           extremes/random (I32, F32), all size classes incl. long 1-D sides (kernel lengths up to 2048 quick / 8192 thorough), crops, 7 filters x 3 algorithms, \
           back-ends, alpha handling off or alpha = max; oracle: every destination component equals the value (integers exactly, F32 within 1 ulp); or \
           (b) a geometry-only white-box case through the read-only hook: for every window the quantised coefficients q with sum 2^p + d satisfy \
           -2^(p-1) <= V*d < 2^(p-1), the exact condition for (v*sum(q) + 2^(p-1)) >> p == v for all v. Non-trivial = a window of > 1 tap; distinct = \
           (type, sizes, crop classes, algorithm, value) resp. (in, out, crop, filter, mode).",
    assumptions: &["kernel lengths stop at 8192 taps (the statement bounds them to 'several thousand'; Box drifts from 8372 taps on)"],
    exhaustive: not_exhaustive,
};

fn profile(tier: Tier) -> Profile {
    let mut p = Profile::standard();
    p.size_weights = [16, 70, 90, 40, 40];
    p.long_max = if tier == Tier::Thorough { 8192 } else { 6000 };
    p
}

fn ulp_f32(v: f32) -> f32 {
    let b = v.abs().to_bits();
    (f32::from_bits(b + 1) - f32::from_bits(b)).abs()
}

/// white-box: exact partition-of-unity arithmetic of the fixed-point coefficients
fn check_whitebox(t: &mut Tape, tier: Tier) -> Outcome {
    let max_in = if tier == Tier::Thorough { 8192 } else { 4096 };
    let huge = t.chance(24);
    let in_size = if huge {
        // kernel lengths of 10^5..10^6: the fixed-point head-room (accumulator width) is what is checked there
        t.pick(&[65536u32, 131072, 300007, 524288, 1 << 20])
    } else {
        match t.below(4) {
            0 => t.range(1, 16),
            1 => t.range(17, 300),
            _ => t.range(301, max_in),
        }
    };
    let out = if huge {
        t.range(1, 3)
    } else {
        match t.below(4) {
            0 => 1,
            1 => t.range(1, 8),
            2 => t.range(9, 300),
            _ => t.range(1, 2048),
        }
    };
    let (l, w, cc) = if t.chance(100) {
        crate::spec::decode_crop_axis(t, in_size)
    } else {
        (0.0, in_size as f64, 0)
    };
    let f = t.below(7) as u8;
    let adaptive = !t.chance(64);
    let wide = t.bool();
    let mut o = Outcome::new(format!(
        "coefficients: in={} crop=({:?},{:?}) out={} filter={} adaptive={} {}",
        in_size,
        l,
        w,
        out,
        BUILTIN_NAMES[f as usize],
        adaptive,
        if wide { "16-bit" } else { "8-bit" }
    ));
    // bound the hook's allocation: window * out
    let scale = (w / out as f64).max(1.0);
    if scale * 7.0 * out as f64 > 2.5e7 || (huge && !adaptive && false) {
        o.label("skipped:too-large");
        return o;
    }
    let ft = FilterSpec::Builtin(f).to_fr();
    let d = match catch(|| fr::verif::coefficients(in_size, l, l + w, out, ft, adaptive, !wide, wide)) {
        Ok(d) => d,
        Err(p) => {
            o.fail(format!("panic while computing coefficients: {}", p));
            return o;
        }
    };
    let v: i128 = if wide { 65535 } else { 255 };
    let mut max_taps = 0;
    let chk = |p: u8, start: u32, q: &[i128], o: &mut Outcome| {
        // the accumulator (i32 for 8-bit, i64 for 16-bit data) must hold max_value * sum|q| + rounding constant
        let abs_sum: i128 = q.iter().map(|x| x.abs()).sum();
        let acc_max: i128 = if wide { i64::MAX as i128 } else { i32::MAX as i128 };
        if v * abs_sum + (1i128 << (p.max(1) - 1)) > acc_max {
            o.fail(format!(
                "window starting at {} ({} taps, precision {}): {} * sum|q| = {} exceeds the {}-bit accumulator for a {} image at full scale",
                start,
                q.len(),
                p,
                v,
                v * abs_sum,
                if wide { 64 } else { 32 },
                if wide { "16-bit" } else { "8-bit" }
            ));
        }
        let sum: i128 = q.iter().sum();
        let dd = sum - (1i128 << p);
        // every coefficient is rounded to nearest: the sum cannot be off by more than half a unit per tap
        if 2 * dd.abs() > q.len() as i128 + 2 {
            o.fail(format!(
                "window starting at {} ({} taps): coefficients sum to 2^{} {:+}, more than rounding of {} normalised weights can explain",
                start,
                q.len(),
                p,
                dd,
                q.len()
            ));
        }
        let half = 1i128 << (p.max(1) - 1);
        if !huge && !(-half <= v * dd && v * dd < half) {
            o.fail(format!(
                "window starting at {} ({} taps): coefficients sum to 2^{} {:+} so a constant image of value {} is not reproduced",
                start,
                q.len(),
                p,
                dd,
                v
            ));
        }
    };
    if let Some((p, chunks)) = &d.precision16 {
        for (start, vals) in chunks {
            max_taps = max_taps.max(vals.len());
            let q: Vec<i128> = vals.iter().map(|x| *x as i128).collect();
            chk(*p, *start, &q, &mut o);
        }
        o.label(format!("precision16:{}", p));
    }
    if let Some((p, chunks)) = &d.precision32 {
        for (start, vals) in chunks {
            max_taps = max_taps.max(vals.len());
            let q: Vec<i128> = vals.iter().map(|x| *x as i128).collect();
            chk(*p, *start, &q, &mut o);
        }
        o.label(format!("precision32:{}", p));
    }
    o.label(format!("whitebox:taps:{}", super::c01::taps_bucket(max_taps)));
    if max_taps > 1 && !o.failed() {
        o.nontrivial_key(fnv(
            format!("wb|{}|{:?}|{:?}|{}|{}|{}|{}|{}", in_size, l, w, out, f, adaptive, wide, cc).as_bytes(),
        ));
    }
    o
}

fn check(tape: &[u8], ctx: &Ctx) -> Outcome {
    let mut t = Tape::new(tape);
    if t.chance(90) {
        return check_whitebox(&mut t, ctx.tier);
    }
    let mut spec = ResizeSpec::decode(&mut t, &profile(ctx.tier));
    let c = img::comp(spec.pt);
    let nch = img::channels(spec.pt);
    // the constant
    let value: f64 = match c {
        Comp::U8 => t.u8() as f64,
        Comp::U16 => match t.below(8) {
            0 => 0.0,
            1 => 1.0,
            2 => 2.0,
            3 => 32767.0,
            4 => 65534.0,
            5 => 65535.0,
            _ => t.u16() as f64,
        },
        Comp::I32 => match t.below(6) {
            0 => 0.0,
            1 => i32::MAX as f64,
            2 => i32::MIN as f64,
            3 => -1.0,
            _ => (t.u32() as i32) as f64,
        },
        Comp::F32 => match t.below(6) {
            0 => 0.0,
            1 => 1.0,
            2 => -1.5e30,
            3 => 1e-30,
            _ => (t.unit() * 2.0 - 0.5) as f32 as f64,
        },
    };
    let mut o = Outcome::new(format!("constant {:?}: {}", value, spec.desc()));
    let has_alpha = img::has_alpha(spec.pt);
    let alpha_max = if c == Comp::F32 { 1.0 } else { c.vmax() };
    // alpha handling off, or alpha = max
    let npx = spec.sw as usize * spec.sh as usize;
    let mut src = img::Buf::placed(npx * spec.pt.size(), Placement::Heap);
    for i in 0..npx {
        for ch in 0..nch {
            let v = if has_alpha && spec.use_alpha && ch == nch - 1 { alpha_max } else { value };
            img::set_comp(c, src.bytes_mut(), i * nch + ch, v);
        }
    }
    if !has_alpha {
        spec.use_alpha = false;
    }
    let run = match exec::run_resize(&spec, src.bytes(), 0xA5, Placement::Heap) {
        Ok(r) => r,
        Err(p) => {
            o.fail(format!("panic: {}", p));
            return o;
        }
    };
    if let Err(e) = &run.result {
        o.fail(format!("resize returned an error for a crop box inside the source: {}", e));
        return o;
    }
    let out = img::comps_f64(spec.pt, run.dst.bytes());
    for (i, &got) in out.iter().enumerate() {
        let ch = i % nch;
        let want = if has_alpha && spec.use_alpha && ch == nch - 1 { alpha_max } else { value };
        let ok = match c {
            Comp::F32 => {
                let tol = ulp_f32(want as f32) as f64;
                (got - (want as f32 as f64)).abs() <= tol
            }
            _ => got == want,
        };
        if !ok {
            let px = i / nch;
            o.fail(format!(
                "destination (x={}, y={}, channel={}) = {:?} but every source pixel is {:?}",
                px % spec.dw as usize,
                px / spec.dw as usize,
                ch,
                got,
                want
            ));
            return o;
        }
    }
    o.label(format!("type:{}", img::pt_name(spec.pt)));
    o.label(format!("alg:{}", spec.alg.kind()));
    o.label(format!("crop:{}/{}", crop_class_name(spec.crop_class.0), crop_class_name(spec.crop_class.1)));
    if has_alpha && spec.use_alpha {
        o.label("alpha=max");
    }
    let (_, _, cw, ch_) = spec.crop_box();
    let taps_est = {
        let f = match spec.alg.filter() {
            Some(FilterSpec::Builtin(i)) => crate::model::support(i),
            _ => 1.0,
        };
        let sx = (cw / spec.dw as f64).max(1.0);
        let sy = (ch_ / spec.dh as f64).max(1.0);
        let adaptive = !matches!(spec.alg, AlgSpec::Interp(_));
        (2.0 * f * if adaptive { sx.max(sy) } else { 1.0 }) as usize
    };
    o.label(format!("taps~:{}", super::c01::taps_bucket(taps_est)));
    if !spec.is_copy() {
        o.nontrivial_key(fnv(
            format!(
                "{}|{}|{}|{}|{}|{:?}|{}|{:?}|{}",
                img::pt_name(spec.pt),
                spec.sw,
                spec.sh,
                spec.dw,
                spec.dh,
                spec.crop_class,
                spec.alg.name(),
                value,
                spec.use_alpha
            )
            .as_bytes(),
        ));
    }
    o
}
