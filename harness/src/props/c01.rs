//! C01 — convolution resizing equals the ideal separable filter within rounding error.
use crate::exec;
use crate::img::{self, Comp, Placement};
use crate::model::{self, Grid, ModelSkip};
use crate::outcome::*;
use crate::spec::{crop_class_name, AlgSpec, FilterSpec, Profile, ResizeSpec};
use crate::tape::{fnv, Tape};

pub static PROP: PropDef = PropDef {
    id: "C01",
    builds: opt_only,
    max_tape: 64,
    cases: |t| match t {
        Tier::Quick => 150_000,
        Tier::Thorough => 4_000_000,
    },
    fixed: no_fixed,
    check,
    rule: "tape -> (pixel type of 13, src/dst sizes from classes 1 | 2..9 | 10..70 | 71..300 | long 1-D up to 2048 (8192 thorough), \
           crop class per axis {full,int,frac,edge-touching,sub-pixel,sub-pixel edge-flush}, 7 built-in filters x \
           {Convolution, Interpolation, SuperSampling m=1..5}, content class {zero,random,extremes,checkerboard,stripes,impulse,band,\
           constant,gradient,wide/signed}, back-end); alpha handling off. Oracle: independent f64 reference resampler producing an allowed \
           integer/real interval per destination sample (round per pass, coefficient quantisation, Box-edge and Gaussian cut-off ambiguity, \
           either pass order). Non-trivial = a resampling pass with a window of more than one tap ran; distinct = (type, sizes, crop classes, filter, algorithm).",
    assumptions: &[
        "a dimension whose destination size equals an integer-aligned crop extent is not resampled (C12), so the model uses the identity there",
        "SuperSampling cases whose intermediate size is within 1e-9 of a rounding tie are skipped and counted",
        "float contents are finite and far from overflow",
    ],
    exhaustive: not_exhaustive,
};

pub fn profile(tier: Tier) -> Profile {
    let mut p = Profile::standard();
    p.alpha_chance = 0;
    p.huge_max = 300_007;
    if tier == Tier::Thorough {
        p.long_max = 8192;
        p.huge_max = 524_288;
    }
    p
}

pub fn builtin_index(spec: &ResizeSpec) -> Option<u8> {
    match spec.alg.filter() {
        Some(FilterSpec::Builtin(i)) => Some(i),
        _ => None,
    }
}

/// Runs the reference model for the spec on `src` component values.
pub fn run_model(spec: &ResizeSpec, src: &[u8]) -> Result<(model::ModelResult, bool), ModelSkip> {
    let c = img::comp(spec.pt);
    let nch = img::channels(spec.pt);
    let g = Grid::exact(spec.sw as usize, spec.sh as usize, nch, img::comps_f64(spec.pt, src));
    let (l, t, cw, ch) = spec.crop_box();
    let f = builtin_index(spec).unwrap_or(0);
    match spec.alg {
        AlgSpec::Conv(_) => model::convolve(&g, c, l, t, cw, ch, spec.dw, spec.dh, f, true).map(|r| (r, false)),
        AlgSpec::Interp(_) => model::convolve(&g, c, l, t, cw, ch, spec.dw, spec.dh, f, false).map(|r| (r, false)),
        AlgSpec::Super(_, m) => model::supersample(&g, c, l, t, cw, ch, spec.dw, spec.dh, f, m),
        AlgSpec::Nearest => {
            let r = model::nearest(&g, l, t, cw, ch, spec.dw, spec.dh);
            Ok((
                model::ModelResult {
                    orders: vec![r],
                    passes: "nearest",
                    max_taps: 1,
                    ambiguous_windows: 0,
                },
                false,
            ))
        }
    }
}

pub fn taps_bucket(n: usize) -> &'static str {
    match n {
        0..=1 => "1",
        2..=4 => "2-4",
        5..=8 => "5-8",
        9..=32 => "9-32",
        33..=256 => "33-256",
        257..=2048 => "257-2048",
        _ => ">2048",
    }
}

fn check(tape: &[u8], ctx: &Ctx) -> Outcome {
    let mut t = Tape::new(tape);
    let spec = ResizeSpec::decode(&mut t, &profile(ctx.tier));
    let guard = !t.chance(64);
    let mut o = Outcome::new(spec.desc());
    if std::env::var("FIRV_DESCRIBE_ONLY").is_ok() {
        return o;
    }
    let src = exec::src_image(&spec, if guard { Placement::GuardEnd } else { Placement::Heap });
    let run = match exec::run_resize(&spec, src.bytes(), 0xA5, if guard { Placement::GuardEnd } else { Placement::Heap }) {
        Ok(r) => r,
        Err(p) => {
            o.fail(format!("panic: {}", p));
            return o;
        }
    };
    if let Err(e) = &run.result {
        o.fail(format!("resize returned an error for a crop box inside the source: {}", e));
        return o;
    }
    let (res, two_step) = match run_model(&spec, src.bytes()) {
        Ok(r) => r,
        Err(skip) => {
            o.label(format!("skipped:{:?}", skip));
            return o;
        }
    };
    o.label(format!("passes:{}", res.passes));
    o.label(format!("crop:{}/{}", crop_class_name(spec.crop_class.0), crop_class_name(spec.crop_class.1)));
    o.label(format!("taps:{}", taps_bucket(res.max_taps)));
    o.label(format!("alg:{}", spec.alg.kind()));
    o.label(format!("type:{}", img::pt_name(spec.pt)));
    if two_step {
        o.label("supersampling:two-step");
    }
    if res.ambiguous_windows > 0 {
        o.label("ambiguous-windows");
    }
    // sensitivity meter: how tight are the allowed intervals
    let c = img::comp(spec.pt);
    if c != Comp::F32 {
        let g = &res.orders[0];
        let n = g.lo.len().max(1);
        let single = g.lo.iter().zip(&g.hi).filter(|(l, h)| l == h).count();
        let wide = g.lo.iter().zip(&g.hi).filter(|(l, h)| *h - *l > 1.0).count();
        o.label_n("samples", n as u64);
        o.label_n("samples:single-valued", single as u64);
        o.label_n("samples:interval>1", wide as u64);
    }
    let dstv = img::comps_f64(spec.pt, run.dst.bytes());
    if std::env::var("FIRV_DEBUG").is_ok() {
        eprintln!("src = {:?}", img::comps_f64(spec.pt, src.bytes()));
        eprintln!("dst = {:?}", dstv);
        for (k, g) in res.orders.iter().enumerate() {
            eprintln!("order {} lo = {:?}", k, g.lo);
            eprintln!("order {} hi = {:?}", k, g.hi);
        }
        let (l, t, cw, ch) = spec.crop_box();
        let f = spec.alg.filter().unwrap().to_fr();
        let adaptive = !matches!(spec.alg, AlgSpec::Interp(_));
        let h = fast_image_resize::verif::coefficients(spec.sw, l, l + cw, spec.dw, f, adaptive, false, false);
        let v = fast_image_resize::verif::coefficients(spec.sh, t, t + ch, spec.dh, f, adaptive, false, false);
        eprintln!("lib h: ws={} bounds={:?} values={:?}", h.window_size, h.bounds, h.values);
        eprintln!("lib v: ws={} bounds={:?} values={:?}", v.window_size, v.bounds, v.values);
        let mh = model::weights(spec.sw, l, l + cw, spec.dw, builtin_index(&spec).unwrap_or(0), adaptive);
        let mv = model::weights(spec.sh, t, t + ch, spec.dh, builtin_index(&spec).unwrap_or(0), adaptive);
        eprintln!("model h: {:?}", mh);
        eprintln!("model v: {:?}", mv);
    }
    if let Some((i, v, lo, hi)) = model::judge(&res, &dstv) {
        let nch = img::channels(spec.pt);
        let px = i / nch;
        o.fail(format!(
            "destination sample (x={}, y={}, channel={}) = {:?} outside the allowed interval [{:?}, {:?}] of the ideal resampling (passes: {})",
            px % spec.dw as usize,
            px / spec.dw as usize,
            i % nch,
            v,
            lo,
            hi,
            res.passes
        ));
        return o;
    }
    if res.passes != "none" && res.max_taps > 1 {
        let key = format!(
            "{}|{}|{}|{}|{}|{:?}|{}",
            img::pt_name(spec.pt),
            spec.sw,
            spec.sh,
            spec.dw,
            spec.dh,
            spec.crop_class,
            spec.alg.name()
        );
        o.nontrivial_key(fnv(key.as_bytes()));
    }
    o
}
