//! C06 — alpha multiply is exactly rounded, alpha divide is faithful and saturating.
use crate::img::{self, Buf, Comp};
use crate::outcome::*;
use crate::runner::catch;
use crate::tape::{Mix, Tape};
use fast_image_resize as fr;
use fr::images::{Image, ImageRef, TypedImage, TypedImageRef};
use fr::pixels::{F32x2, F32x4, U16x2, U16x4, U8x2, U8x4};
use fr::{CpuExtensions, PixelTrait, PixelType};

pub static PROP: PropDef = PropDef {
    id: "C06",
    builds: opt_and_dbg,
    max_tape: 24,
    cases: |t| match t {
        Tier::Quick => 20_000,
        Tier::Thorough => 400_000,
    },
    fixed,
    check,
    rule: "enumeration chunks: 8-bit - all 65,536 (colour, alpha) pairs for U8x2/U8x4 x {None,SSE4.1,AVX2} x {multiply,divide}, laid out in images of \
           every row width 1..40 and in 64-pixel rows at 16 shifts (every pair meets every vector lane, main loop, remainder and tail), through \
           4 entry points (two-image/in-place x dynamic/typed); 16-bit - quick: every pair with colour or alpha in {0,1,2,3,255,256,257,32767,32768,32769,\
           65534,65535}, colour = alpha +-1, and 2^22 SplitMix pairs; thorough: all 2^32 pairs per type, back-end and operation. Generated tapes: random \
           small images of the 6 alpha types (floats: 4096 (c,a) bit patterns per tape incl. +-0, denormals, huge) and rejection of the 7 non-alpha types. \
           Oracle: u64 arithmetic - multiply == floor((2ca+V)/(2V)); divide in {floor,ceil}(cV/a) saturated at V; a=0 -> 0; alpha unchanged; floats: c*a \
           exactly, c/a within 2 ulp. Every (layout, pixel, entry point, back-end) evaluation of a pair is one distinct non-trivial case.",
    assumptions: &[
        "float pairs are finite; pairs whose quotient overflows f32 are outside the checked domain and counted",
    ],
    exhaustive: |_| true,
};

const EXTS: [CpuExtensions; 3] = [CpuExtensions::None, CpuExtensions::Sse4_1, CpuExtensions::Avx2];

const BOUNDARY16: [u32; 12] = [0, 1, 2, 3, 255, 256, 257, 32767, 32768, 32769, 65534, 65535];

fn fixed(tier: Tier) -> Vec<Vec<u8>> {
    let mut v = Vec::new();
    for (pti, _) in [PixelType::U8x2, PixelType::U8x4].iter().enumerate() {
        for e in 0..3u8 {
            for op in 0..2u8 {
                // 8-bit: 4 chunks of 64 alpha values each
                for chunk in 0..4u8 {
                    v.push(vec![0xEE, 0, pti as u8, e, op, chunk, 0xEE]);
                }
            }
        }
    }
    for pti in 0..2u8 {
        for e in 0..3u8 {
            for op in 0..2u8 {
                v.push(vec![0xEE, 1, pti, e, op, 0, 0xEE]);
                // wide rows (>= 32768 pixels) and an image of more than 2^20 pixels, 8-bit (chunk 0) and 16-bit (chunk 1) types
                v.push(vec![0xEE, 4, pti, e, op, 0, 0xEE]);
                v.push(vec![0xEE, 4, pti, e, op, 1, 0xEE]);
                for chunk in 0..4u8 {
                    v.push(vec![0xEE, 2, pti, e, op, chunk, 0xEE]);
                }
                if tier == Tier::Thorough {
                    for chunk in 0..=255u8 {
                        v.push(vec![0xEE, 3, pti, e, op, chunk, 0xEE]);
                    }
                }
            }
        }
    }
    v
}

// ------------------------------------------------------------------ oracle (integers)

#[inline]
fn mul_ok(c: u64, a: u64, v: u64, got: u64) -> bool {
    got == (2 * c * a + v) / (2 * v)
}

#[inline]
fn div_ok(c: u64, a: u64, v: u64, got: u64) -> bool {
    if a == 0 {
        return got == 0;
    }
    let num = c * v;
    // exact quotient >= v  => saturated
    if num >= v * a {
        // c >= a: c*v/a >= v
        return got == v;
    }
    // got*a <= num < (got+1)*a  (floor)   or   (got-1)*a < num <= got*a  (ceil)
    let ga = got * a;
    if ga <= num {
        num - ga < a
    } else {
        ga - num < a
    }
}

// ------------------------------------------------------------------ library calls

#[derive(Clone, Copy, Debug, PartialEq, Eq)]
pub enum Variant {
    TwoDyn,
    InplaceDyn,
    TwoTyped,
    InplaceTyped,
}
pub const VARIANTS: [Variant; 4] = [Variant::TwoDyn, Variant::InplaceDyn, Variant::TwoTyped, Variant::InplaceTyped];

fn typed_call<P: PixelTrait>(
    md: &fr::MulDiv,
    divide: bool,
    inplace: bool,
    w: u32,
    h: u32,
    src: &[u8],
    dst: &mut [u8],
) -> Result<(), String> {
    if inplace {
        dst.copy_from_slice(src);
        let mut d = TypedImage::<P>::from_buffer(w, h, dst).map_err(|e| format!("{:?}", e))?;
        if divide {
            md.divide_alpha_inplace_typed(&mut d).map_err(|e| format!("{:?}", e))
        } else {
            md.multiply_alpha_inplace_typed(&mut d).map_err(|e| format!("{:?}", e))
        }
    } else {
        let s = TypedImageRef::<P>::from_buffer(w, h, src).map_err(|e| format!("{:?}", e))?;
        let mut d = TypedImage::<P>::from_buffer(w, h, dst).map_err(|e| format!("{:?}", e))?;
        if divide {
            md.divide_alpha_typed(&s, &mut d).map_err(|e| format!("{:?}", e))
        } else {
            md.multiply_alpha_typed(&s, &mut d).map_err(|e| format!("{:?}", e))
        }
    }
}

/// Runs one alpha operation; Err(outer) = panic.
pub fn call(
    ext: CpuExtensions,
    divide: bool,
    variant: Variant,
    pt: PixelType,
    w: u32,
    h: u32,
    src: &[u8],
    dst: &mut [u8],
) -> Result<Result<(), String>, String> {
    catch(|| {
        let md = img::new_muldiv(ext);
        match variant {
            Variant::TwoDyn => {
                let s = ImageRef::new(w, h, src, pt).map_err(|e| format!("{:?}", e))?;
                let mut d = Image::from_slice_u8(w, h, dst, pt).map_err(|e| format!("{:?}", e))?;
                if divide {
                    md.divide_alpha(&s, &mut d).map_err(|e| format!("{:?}", e))
                } else {
                    md.multiply_alpha(&s, &mut d).map_err(|e| format!("{:?}", e))
                }
            }
            Variant::InplaceDyn => {
                dst.copy_from_slice(src);
                let mut d = Image::from_slice_u8(w, h, dst, pt).map_err(|e| format!("{:?}", e))?;
                if divide {
                    md.divide_alpha_inplace(&mut d).map_err(|e| format!("{:?}", e))
                } else {
                    md.multiply_alpha_inplace(&mut d).map_err(|e| format!("{:?}", e))
                }
            }
            Variant::TwoTyped | Variant::InplaceTyped => {
                let inplace = variant == Variant::InplaceTyped;
                match pt {
                    PixelType::U8x2 => typed_call::<U8x2>(&md, divide, inplace, w, h, src, dst),
                    PixelType::U8x4 => typed_call::<U8x4>(&md, divide, inplace, w, h, src, dst),
                    PixelType::U16x2 => typed_call::<U16x2>(&md, divide, inplace, w, h, src, dst),
                    PixelType::U16x4 => typed_call::<U16x4>(&md, divide, inplace, w, h, src, dst),
                    PixelType::F32x2 => typed_call::<F32x2>(&md, divide, inplace, w, h, src, dst),
                    PixelType::F32x4 => typed_call::<F32x4>(&md, divide, inplace, w, h, src, dst),
                    _ => Err("typed call on a type without alpha".to_string()),
                }
            }
        }
    })
}

// ------------------------------------------------------------------ enumeration

struct Layout {
    width: usize,
    shift: usize,
}

/// Fills an image with the pair sequence `pairs` (c,a) starting at pixel `shift`
/// (earlier pixels get a filler), other colour channels get derived colours that also
/// sweep the whole range.
fn build_image(c: Comp, nch: usize, pairs: &[(u32, u32)], lay: &Layout) -> (Buf, u32, u32) {
    let n = pairs.len() + lay.shift;
    let h = (n + lay.width - 1) / lay.width;
    let total = h * lay.width;
    let vmax = if c == Comp::U8 { 255u32 } else { 65535u32 };
    let mut buf = Buf::new(total * nch * c.size());
    let bytes = buf.bytes_mut();
    for i in 0..total {
        let (cv, av) = if i >= lay.shift && i - lay.shift < pairs.len() {
            pairs[i - lay.shift]
        } else {
            (vmax / 3, vmax / 2)
        };
        for ch in 0..nch {
            let v = if ch == nch - 1 {
                av
            } else {
                match ch {
                    0 => cv,
                    1 => cv ^ (vmax / 3),
                    _ => vmax - cv,
                }
            };
            img::set_comp(c, bytes, i * nch + ch, v as f64);
        }
    }
    (buf, lay.width as u32, h as u32)
}

struct Fail {
    msg: String,
    repro: Vec<u8>,
}

#[allow(clippy::too_many_arguments)]
fn verify_int(
    pt: PixelType,
    ext: CpuExtensions,
    divide: bool,
    variant: Variant,
    w: u32,
    h: u32,
    src: &[u8],
    dst: &[u8],
    ctx: &Ctx,
    known: &mut Vec<String>,
) -> Result<u64, Fail> {
    let c = img::comp(pt);
    let nch = img::channels(pt);
    let v: u64 = if c == Comp::U8 { 255 } else { 65535 };
    let npx = (w * h) as usize;
    let mut n = 0u64;
    let get = |b: &[u8], i: usize| -> u64 {
        if c == Comp::U8 {
            b[i] as u64
        } else {
            u16::from_ne_bytes([b[2 * i], b[2 * i + 1]]) as u64
        }
    };
    for px in 0..npx {
        let a = get(src, px * nch + nch - 1);
        let a_out = get(dst, px * nch + nch - 1);
        if a_out != a {
            return Err(Fail {
                msg: format!(
                    "alpha changed from {} to {} at pixel {} ({} {} {:?} {} width {})",
                    a,
                    a_out,
                    px,
                    img::pt_name(pt),
                    if divide { "divide" } else { "multiply" },
                    variant,
                    img::ext_name(ext),
                    w
                ),
                repro: literal(pt, ext, divide, variant, w, (px as u32) % w, get(src, px * nch) as u32, a as u32),
            });
        }
        for ch in 0..nch - 1 {
            let cv = get(src, px * nch + ch);
            let got = get(dst, px * nch + ch);
            let ok = if divide { div_ok(cv, a, v, got) } else { mul_ok(cv, a, v, got) };
            n += 1;
            if !ok {
                // known-finding regions
                if divide && c == Comp::U16 {
                    if ext != CpuExtensions::None && ctx.is_known("F8-u16-simd-divide") && (cv > a || (a == 1 && cv >= 32769)) {
                        if !known.iter().any(|k| k == "F8-u16-simd-divide") {
                            known.push("F8-u16-simd-divide".to_string());
                        }
                        continue;
                    }
                    if ext == CpuExtensions::None && ctx.is_known("F7-u16-native-divide-overflow") && a == 1 && cv >= 32769 {
                        if !known.iter().any(|k| k == "F7-u16-native-divide-overflow") {
                            known.push("F7-u16-native-divide-overflow".to_string());
                        }
                        continue;
                    }
                }
                let want = if divide {
                    if a == 0 {
                        "0".to_string()
                    } else {
                        let q = (cv * v) as f64 / a as f64;
                        format!("floor or ceil of {:.4} saturated at {}", q, v)
                    }
                } else {
                    format!("{}", (2 * cv * a + v) / (2 * v))
                };
                return Err(Fail {
                    msg: format!(
                        "{} {} {:?} on {}: colour {} alpha {} -> {} but expected {} (row width {}, column {}, channel {})",
                        img::pt_name(pt),
                        if divide { "divide" } else { "multiply" },
                        variant,
                        img::ext_name(ext),
                        cv,
                        a,
                        got,
                        want,
                        w,
                        px as u32 % w,
                        ch
                    ),
                    repro: literal(pt, ext, divide, variant, w, px as u32 % w, cv as u32, a as u32),
                });
            }
        }
    }
    Ok(n)
}

fn literal(pt: PixelType, ext: CpuExtensions, divide: bool, variant: Variant, w: u32, x: u32, c: u32, a: u32) -> Vec<u8> {
    let mut t = vec![
        0xED,
        img::pt_index(pt) as u8,
        EXTS.iter().position(|e| *e == ext).unwrap_or(0) as u8,
        divide as u8,
        VARIANTS.iter().position(|v| *v == variant).unwrap_or(0) as u8,
    ];
    t.extend_from_slice(&(w as u16).to_be_bytes());
    t.extend_from_slice(&(x as u16).to_be_bytes());
    t.extend_from_slice(&(c as u16).to_be_bytes());
    t.extend_from_slice(&(a as u16).to_be_bytes());
    t
}

fn run_layouts(
    o: &mut Outcome,
    pt: PixelType,
    ext: CpuExtensions,
    divide: bool,
    pairs: &[(u32, u32)],
    layouts: &[Layout],
    all_variants_on: usize,
    ctx: &Ctx,
) {
    let c = img::comp(pt);
    let nch = img::channels(pt);
    for (li, lay) in layouts.iter().enumerate() {
        let (src, w, h) = build_image(c, nch, pairs, lay);
        let mut first: Option<Buf> = None;
        let variants: &[Variant] = if li < all_variants_on { &VARIANTS } else { &VARIANTS[..1] };
        for &variant in variants {
            let mut dst = Buf::new(src.len());
            dst.fill(0x5A);
            match call(ext, divide, variant, pt, w, h, src.bytes(), dst.bytes_mut()) {
                Err(p) => {
                    if c == Comp::U16 && divide && ext == CpuExtensions::None && ctx.is_known("F7-u16-native-divide-overflow") && p.contains("overflow") {
                        o.known("F7-u16-native-divide-overflow");
                        continue;
                    }
                    o.fail(format!(
                        "panic in {} {} {:?} on {} (row width {}): {}",
                        img::pt_name(pt),
                        if divide { "divide" } else { "multiply" },
                        variant,
                        img::ext_name(ext),
                        w,
                        p
                    ));
                    // find the culprit pair by bisection over single-pixel rows is left to the replay of the chunk
                    return;
                }
                Ok(Err(e)) => {
                    o.fail(format!("{} {:?} returned {}", img::pt_name(pt), variant, e));
                    return;
                }
                Ok(Ok(())) => {}
            }
            let mut known = Vec::new();
            match verify_int(pt, ext, divide, variant, w, h, src.bytes(), dst.bytes(), ctx, &mut known) {
                Ok(n) => {
                    o.evals += n;
                    o.bulk_nontrivial += n;
                }
                Err(f) => {
                    o.fail(f.msg);
                    o.repro = Some(f.repro);
                    return;
                }
            }
            let had_known = !known.is_empty();
            for k in known {
                o.known(&k);
            }
            match &first {
                None => first = Some(dst),
                Some(f) => {
                    if !had_known && f.bytes() != dst.bytes() {
                        let i = img::bytes_diff(f.bytes(), dst.bytes()).unwrap_or(0);
                        o.fail(format!(
                            "{} {} on {}: entry point {:?} differs from TwoDyn at byte {} (row width {})",
                            img::pt_name(pt),
                            if divide { "divide" } else { "multiply" },
                            img::ext_name(ext),
                            variant,
                            i,
                            w
                        ));
                        return;
                    }
                }
            }
        }
    }
}

fn enumerate(tape: &[u8], ctx: &Ctx) -> Outcome {
    let kind = tape.get(1).copied().unwrap_or(0);
    let pti = tape.get(2).copied().unwrap_or(0) as usize % 2;
    let ext = EXTS[tape.get(3).copied().unwrap_or(0) as usize % 3];
    let divide = tape.get(4).copied().unwrap_or(0) % 2 == 1;
    let chunk = tape.get(5).copied().unwrap_or(0) as u32;
    let opname = if divide { "divide" } else { "multiply" };
    let mut o;
    if !ext.is_supported() {
        o = Outcome::new(format!("enumeration skipped: {} not supported", img::ext_name(ext)));
        o.evals = 0;
        o.label("skipped:ext-unsupported");
        return o;
    }
    match kind {
        0 => {
            let pt = [PixelType::U8x2, PixelType::U8x4][pti];
            o = Outcome::new(format!(
                "all 8-bit pairs with alpha in {}..{}: {} {} on {}, row widths 1..40 + 16 shifts, 4 entry points",
                chunk * 64,
                chunk * 64 + 63,
                img::pt_name(pt),
                opname,
                img::ext_name(ext)
            ));
            o.evals = 0;
            let mut pairs = Vec::with_capacity(64 * 256);
            for a in chunk * 64..chunk * 64 + 64 {
                for c in 0..256u32 {
                    pairs.push((c, a));
                }
            }
            let mut layouts: Vec<Layout> = (1..=40).map(|w| Layout { width: w, shift: 0 }).collect();
            for s in 0..16 {
                layouts.push(Layout { width: 64, shift: s });
            }
            run_layouts(&mut o, pt, ext, divide, &pairs, &layouts, usize::MAX, ctx);
            o.label(format!("enum8:{}:{}:{}", img::pt_name(pt), opname, img::ext_name(ext)));
        }
        1 => {
            let pt = [PixelType::U16x2, PixelType::U16x4][pti];
            o = Outcome::new(format!(
                "16-bit boundary pairs (colour or alpha in {:?}, colour = alpha+-1): {} {} on {}",
                BOUNDARY16,
                img::pt_name(pt),
                opname,
                img::ext_name(ext)
            ));
            o.evals = 0;
            let mut pairs = Vec::with_capacity(12 * 65536 * 2 + 3 * 65536);
            for &b in &BOUNDARY16 {
                for x in 0..65536u32 {
                    pairs.push((x, b));
                    pairs.push((b, x));
                }
            }
            for a in 0..65536u32 {
                pairs.push((a.saturating_sub(1), a));
                pairs.push(((a + 1).min(65535), a));
                pairs.push((a, a));
            }
            let layouts = [
                Layout { width: 64, shift: 0 },
                Layout { width: 64, shift: 1 },
                Layout { width: 64, shift: 2 },
                Layout { width: 64, shift: 3 },
                Layout { width: 1, shift: 0 },
                Layout { width: 3, shift: 0 },
                Layout { width: 7, shift: 0 },
                Layout { width: 9, shift: 0 },
                Layout { width: 17, shift: 0 },
            ];
            run_layouts(&mut o, pt, ext, divide, &pairs, &layouts, 1, ctx);
            o.label(format!("enum16-boundary:{}:{}:{}", img::pt_name(pt), opname, img::ext_name(ext)));
        }
        2 => {
            let pt = [PixelType::U16x2, PixelType::U16x4][pti];
            o = Outcome::new(format!(
                "2^20 SplitMix 16-bit pairs (chunk {}): {} {} on {}",
                chunk,
                img::pt_name(pt),
                opname,
                img::ext_name(ext)
            ));
            o.evals = 0;
            let mut rng = Mix::new(0xC06 + chunk as u64 * 977 + pti as u64);
            let mut pairs = Vec::with_capacity(1 << 20);
            for _ in 0..(1 << 20) {
                let r = rng.next();
                pairs.push(((r & 0xFFFF) as u32, ((r >> 16) & 0xFFFF) as u32));
            }
            let layouts = [Layout { width: 61, shift: 0 }];
            run_layouts(&mut o, pt, ext, divide, &pairs, &layouts, 1, ctx);
            o.label(format!("enum16-random:{}:{}:{}", img::pt_name(pt), opname, img::ext_name(ext)));
        }
        4 => {
            let pt = if chunk == 0 { [PixelType::U8x2, PixelType::U8x4][pti] } else { [PixelType::U16x2, PixelType::U16x4][pti] };
            o = Outcome::new(format!(
                "wide rows (32775 and 65539 pixels) and a 1031x1100 image of SplitMix pairs with runs of opaque / transparent pixels: {} {} on {}, 4 entry points",
                img::pt_name(pt),
                opname,
                img::ext_name(ext)
            ));
            o.evals = 0;
            let vmax = if chunk == 0 { 255u32 } else { 65535 };
            let mut rng = Mix::new(0xB16 + pti as u64 * 31 + chunk as u64);
            let mut pairs = Vec::with_capacity(1031 * 1100);
            let mut run = 0u32;
            let mut kind = 0u64;
            for _ in 0..1031 * 1100 {
                if run == 0 {
                    run = 1 + rng.below(40) as u32;
                    kind = rng.below(5);
                }
                run -= 1;
                let r = rng.next();
                let c = (r as u32) & vmax;
                let a = match kind {
                    0 => 0,
                    1 => vmax,
                    2 => vmax - 1 - ((r >> 20) as u32 & (vmax >> 8).max(1)),
                    _ => ((r >> 32) as u32) & vmax,
                };
                pairs.push((if kind == 0 && r & 1 == 0 { 0 } else { c }, a));
            }
            let layouts = [
                Layout { width: 1031, shift: 0 },
                Layout { width: 32775, shift: 3 },
                Layout { width: 65539, shift: 0 },
            ];
            run_layouts(&mut o, pt, ext, divide, &pairs, &layouts, usize::MAX, ctx);
            o.label(format!("enum-wide:{}:{}:{}", img::pt_name(pt), opname, img::ext_name(ext)));
        }
        _ => {
            let pt = [PixelType::U16x2, PixelType::U16x4][pti];
            o = Outcome::new(format!(
                "all 16-bit pairs with alpha in {}..{}: {} {} on {}",
                chunk * 256,
                chunk * 256 + 255,
                img::pt_name(pt),
                opname,
                img::ext_name(ext)
            ));
            o.evals = 0;
            let mut pairs = Vec::with_capacity(1 << 24);
            for a in chunk * 256..chunk * 256 + 256 {
                for c in 0..65536u32 {
                    pairs.push((c, a));
                }
            }
            let layouts = [Layout { width: 4099, shift: (chunk % 16) as usize }];
            run_layouts(&mut o, pt, ext, divide, &pairs, &layouts, 0, ctx);
            o.label(format!("enum16-full:{}:{}:{}", img::pt_name(pt), opname, img::ext_name(ext)));
        }
    }
    o
}

fn check_literal(tape: &[u8], ctx: &Ctx) -> Outcome {
    let mut t = Tape::new(tape);
    t.u8();
    let pt = img::PT13[t.u8() as usize % 13];
    let ext = EXTS[t.u8() as usize % 3];
    let divide = t.u8() % 2 == 1;
    let variant = VARIANTS[t.u8() as usize % 4];
    let w = (t.u16() as u32).clamp(1, 8192);
    let x = (t.u16() as u32).min(w - 1);
    let c = t.u16() as u32;
    let a = t.u16() as u32;
    let mut o = Outcome::new(format!(
        "{} {} {:?} on {}: one row of width {}, pair (colour {}, alpha {}) at column {}",
        img::pt_name(pt),
        if divide { "divide" } else { "multiply" },
        variant,
        img::ext_name(ext),
        w,
        c,
        a,
        x
    ));
    if !img::has_alpha(pt) || img::comp(pt) == Comp::F32 || !ext.is_supported() {
        o.label("skipped:literal-not-integer-alpha");
        return o;
    }
    let comp = img::comp(pt);
    let (c, a) = if comp == Comp::U8 { (c & 255, a & 255) } else { (c, a) };
    let pairs = vec![(c, a)];
    let lay = Layout { width: w as usize, shift: x as usize };
    let (src, w, h) = build_image(comp, img::channels(pt), &pairs, &lay);
    let mut dst = Buf::new(src.len());
    dst.fill(0x5A);
    match call(ext, divide, variant, pt, w, h, src.bytes(), dst.bytes_mut()) {
        Err(p) => o.fail(format!("panic: {}", p)),
        Ok(Err(e)) => o.fail(format!("returned {}", e)),
        Ok(Ok(())) => {
            let mut known = Vec::new();
            match verify_int(pt, ext, divide, variant, w, h, src.bytes(), dst.bytes(), ctx, &mut known) {
                Ok(_) => {}
                Err(f) => o.fail(f.msg),
            }
            for k in known {
                o.known(&k);
            }
        }
    }
    o
}

// ------------------------------------------------------------------ generated tapes

fn ulps_apart(x: f32, y: f32) -> u64 {
    if x == y {
        return 0;
    }
    if x.is_nan() || y.is_nan() {
        return u64::MAX;
    }
    let key = |v: f32| -> i64 {
        let b = v.to_bits() as i64;
        if b & 0x8000_0000 != 0 {
            -(b & 0x7FFF_FFFF)
        } else {
            b
        }
    };
    (key(x) - key(y)).unsigned_abs()
}

fn gen_f32(r: &mut Mix) -> f32 {
    match r.below(12) {
        0 => 0.0,
        1 => -0.0,
        2 => f32::from_bits(r.below(0x0080_0000) as u32), // denormal
        3 => 1.0,
        4 => (r.unit() * 2.0 - 1.0) as f32 * 1e30,
        5 => f32::MAX * r.unit() as f32,
        6 => f32::MIN_POSITIVE * (1.0 + r.unit() as f32),
        7 | 8 => r.unit() as f32,
        _ => {
            // any finite bit pattern
            loop {
                let v = f32::from_bits(r.next() as u32);
                if v.is_finite() {
                    return v;
                }
            }
        }
    }
}

fn check_floats(t: &mut Tape, _ctx: &Ctx) -> Outcome {
    let pt = [PixelType::F32x2, PixelType::F32x4][t.below(2) as usize];
    let ext = t.pick(&img::exts());
    let divide = t.bool();
    let variant = VARIANTS[t.below(4) as usize];
    let w = if t.chance(8) { 32775 } else { t.range(1, 40) };
    let seed = t.u32() as u64;
    let nch = img::channels(pt);
    let h = (4096 / w).max(1);
    // start of the buffers relative to an 8-byte boundary (a multiple of the 4-byte pixel alignment)
    let off = [0usize, 0, 4, 8, 12, 4][t.below(6) as usize];
    let mut o = Outcome::new(format!(
        "{} {} {:?} on {}: {}x{} float pairs seed {:x}",
        img::pt_name(pt),
        if divide { "divide" } else { "multiply" },
        variant,
        img::ext_name(ext),
        w,
        h,
        seed
    ));
    o.evals = 0;
    let mut rng = Mix::new(seed);
    let npx = (w * h) as usize;
    let mut src = Buf::with_offset(npx * nch * 4, off);
    for i in 0..npx * nch {
        let v = gen_f32(&mut rng);
        src.bytes_mut()[4 * i..4 * i + 4].copy_from_slice(&v.to_ne_bytes());
    }
    let mut dst = Buf::with_offset(src.len(), off);
    dst.fill(0x5A);
    match call(ext, divide, variant, pt, w, h, src.bytes(), dst.bytes_mut()) {
        Err(p) => {
            o.fail(format!("panic: {}", p));
            return o;
        }
        Ok(Err(e)) => {
            o.fail(format!("returned {}", e));
            return o;
        }
        Ok(Ok(())) => {}
    }
    if off != 0 {
        o.label("float:buffers-not-16-byte-aligned");
    }
    let get = |b: &[u8], i: usize| f32::from_ne_bytes(b[4 * i..4 * i + 4].try_into().unwrap());
    let mut out_of_domain = 0u64;
    for px in 0..npx {
        let a = get(src.bytes(), px * nch + nch - 1);
        let a_out = get(dst.bytes(), px * nch + nch - 1);
        if a_out != a {
            o.fail(format!("alpha changed from {:?} to {:?} at pixel {}", a, a_out, px));
            return o;
        }
        for ch in 0..nch - 1 {
            let c = get(src.bytes(), px * nch + ch);
            let got = get(dst.bytes(), px * nch + ch);
            o.evals += 1;
            if divide {
                if a == 0.0 {
                    if got != 0.0 {
                        o.fail(format!("divide: colour {:?} alpha {:?} -> {:?}, expected 0", c, a, got));
                        return o;
                    }
                    continue;
                }
                let want = c / a;
                if !want.is_finite() {
                    // the quotient itself overflows f32
                    out_of_domain += 1;
                    continue;
                }
                // next to the denormal range the quotient has no relative precision left: absolute bound
                if want.abs() < f32::MIN_POSITIVE * 8.0 {
                    if (got as f64 - want as f64).abs() > 8.0 * f32::from_bits(1) as f64 {
                        o.fail(format!("divide: colour {:?} alpha {:?} -> {:?}, expected about {:?}", c, a, got, want));
                        return o;
                    }
                    continue;
                }
                if ulps_apart(got, want) > 2 {
                    o.fail(format!(
                        "divide: colour {:?} alpha {:?} -> {:?}, expected {:?} within 2 ulp ({} ulp apart) [{} {:?} {}]",
                        c,
                        a,
                        got,
                        want,
                        ulps_apart(got, want),
                        img::pt_name(pt),
                        variant,
                        img::ext_name(ext)
                    ));
                    return o;
                }
            } else {
                let want = c * a;
                if !(got == want || (got.is_nan() && want.is_nan())) {
                    o.fail(format!(
                        "multiply: colour {:?} alpha {:?} -> {:?}, expected exactly {:?} [{} {:?} {}]",
                        c,
                        a,
                        got,
                        want,
                        img::pt_name(pt),
                        variant,
                        img::ext_name(ext)
                    ));
                    return o;
                }
            }
        }
    }
    o.label_n("float:out-of-domain(overflowing quotient)", out_of_domain);
    o.label(format!("float:{}:{}", img::pt_name(pt), img::ext_name(ext)));
    o.nontrivial_key(crate::tape::fnv(
        format!("f|{}|{}|{}|{:?}|{}|{:x}", img::pt_name(pt), img::ext_name(ext), divide, variant, w, seed).as_bytes(),
    ));
    o
}

fn check_rejection(t: &mut Tape) -> Outcome {
    let non_alpha: Vec<PixelType> = img::PT13.iter().copied().filter(|p| !img::has_alpha(*p)).collect();
    let pt = t.pick(&non_alpha);
    let ext = t.pick(&img::exts());
    let divide = t.bool();
    let inplace = t.bool();
    let w = t.range(0, 9);
    let h = t.range(0, 5);
    let mut o = Outcome::new(format!(
        "rejection: {} {} inplace={} {}x{} on {}",
        img::pt_name(pt),
        if divide { "divide" } else { "multiply" },
        inplace,
        w,
        h,
        img::ext_name(ext)
    ));
    let len = (w * h) as usize * pt.size();
    let mut src = Buf::new(len);
    src.fill(0x33);
    let mut dst = Buf::new(len);
    dst.fill(0x5A);
    let variant = if inplace { Variant::InplaceDyn } else { Variant::TwoDyn };
    let before: Vec<u8> = if inplace { src.bytes().to_vec() } else { dst.bytes().to_vec() };
    match call(ext, divide, variant, pt, w, h, src.bytes(), dst.bytes_mut()) {
        Err(p) => o.fail(format!("panic: {}", p)),
        Ok(Ok(())) => {
            o.fail("a pixel type without alpha channel was accepted".to_string());
        }
        Ok(Err(e)) => {
            if !e.contains("UnsupportedPixelType") {
                o.fail(format!("unexpected error {}", e));
            }
            if dst.bytes() != &before[..] {
                o.fail("destination modified although the call was rejected".to_string());
            }
        }
    }
    o.label("rejection");
    o.nontrivial_key(crate::tape::fnv(
        format!("rej|{}|{}|{}|{}", img::pt_name(pt), divide, inplace, img::ext_name(ext)).as_bytes(),
    ));
    o
}

fn check_random_int(t: &mut Tape, ctx: &Ctx) -> Outcome {
    let pt = [PixelType::U8x2, PixelType::U8x4, PixelType::U16x2, PixelType::U16x4][t.below(4) as usize];
    let ext = t.pick(&img::exts());
    let divide = t.bool();
    let w = t.range(1, 70);
    let h = t.range(1, 9);
    let seed = t.u32() as u64;
    let class = t.pick(&[1u8, 2, 6, 3, 8, 10, 10]);
    let off = [0usize, 0, 2, 4, 6, 1, 3][t.below(7) as usize];
    let mut o = Outcome::new(format!(
        "{} {} on {}: {}x{} content class {} seed {:x}, all 4 entry points",
        img::pt_name(pt),
        if divide { "divide" } else { "multiply" },
        img::ext_name(ext),
        w,
        h,
        class,
        seed
    ));
    o.evals = 0;
    let src0 = img::make_image(pt, w, h, img::Content { class, seed }, img::Placement::Heap);
    // buffer start aligned for the pixel type only
    let a = if img::comp(pt) == Comp::U16 { 2 } else { 1 };
    let off = off / a * a;
    let mut src = Buf::with_offset(src0.len(), off);
    src.bytes_mut().copy_from_slice(src0.bytes());
    let mut first: Option<Buf> = None;
    for &variant in &VARIANTS {
        let mut dst = Buf::with_offset(src.len(), off);
        dst.fill(0x5A);
        match call(ext, divide, variant, pt, w, h, src.bytes(), dst.bytes_mut()) {
            Err(p) => {
                if img::comp(pt) == Comp::U16 && divide && ext == CpuExtensions::None && ctx.is_known("F7-u16-native-divide-overflow") && p.contains("overflow") {
                    o.known("F7-u16-native-divide-overflow");
                    return o;
                }
                o.fail(format!("panic in {:?}: {}", variant, p));
                return o;
            }
            Ok(Err(e)) => {
                o.fail(format!("{:?} returned {}", variant, e));
                return o;
            }
            Ok(Ok(())) => {}
        }
        let mut known = Vec::new();
        match verify_int(pt, ext, divide, variant, w, h, src.bytes(), dst.bytes(), ctx, &mut known) {
            Ok(n) => o.evals += n,
            Err(f) => {
                o.fail(f.msg);
                o.repro = Some(f.repro);
                return o;
            }
        }
        let had_known = !known.is_empty();
        for k in known {
            o.known(&k);
        }
        match &first {
            None => first = Some(dst),
            Some(f) => {
                if !had_known && f.bytes() != dst.bytes() {
                    o.fail(format!("entry point {:?} differs from TwoDyn", variant));
                    return o;
                }
            }
        }
    }
    o.label(format!("random-int:{}", img::pt_name(pt)));
    o.nontrivial_key(crate::tape::fnv(
        format!("ri|{}|{}|{}|{}|{}|{:x}", img::pt_name(pt), img::ext_name(ext), divide, w, h, seed).as_bytes(),
    ));
    o
}

fn check(tape: &[u8], ctx: &Ctx) -> Outcome {
    match tape.first() {
        Some(0xEE) if tape.len() == 7 && tape[6] == 0xEE && tape[1] <= 4 => return enumerate(tape, ctx),
        Some(0xED) if tape.len() == 13 => return check_literal(tape, ctx),
        _ => {}
    }
    let mut t = Tape::new(tape);
    match t.weighted(&[50, 30, 20]) {
        0 => check_floats(&mut t, ctx),
        1 => check_random_int(&mut t, ctx),
        _ => check_rejection(&mut t),
    }
}
