//! C11 — Nearest picks the source pixel under each destination centre.

use crate::img::{self, Buf, Comp, Placement};
use crate::layout::{self, LKind, Layout, SrcOp};
use crate::model;
use crate::outcome::*;
use crate::runner::catch;
use crate::spec::{crop_class_name, AlgSpec, Profile, ResizeSpec};
use crate::tape::{fnv, Tape};
use fast_image_resize::images::Image;

pub static PROP: PropDef = PropDef {
    id: "C11",
    builds: opt_and_dbg,
    max_tape: 64,
    cases: |t| match t {
        Tier::Quick => 200_000,
        Tier::Thorough => 3_000_000,
    },
    fixed: no_fixed,
    check,
    rule: "tape -> Nearest resize of (a) an identity-tagged I32 image (pixel = y*W + x) or (b) any of the 13 pixel types with random contents whose pixels are \
           made pairwise distinguishable where possible, alpha flag on or off; sizes incl. 1, huge ratios (1 <-> 2048) and long sides; every valid crop class incl. \
           sub-pixel boxes flush against the right/bottom edge; sources optionally backed by a buffer with spare rows beyond the image and by guard pages. \
           Oracle: destination pixel (x,y) is bit-equal to source pixel (floor(l+(x+0.5)cw/w), floor(t+(y+0.5)ch/h)) clamped into the image; both neighbours \
           accepted within a noise band of 4(n+4)eps|coordinate|. Non-trivial = destination size differs from the crop size; distinct = (type, sizes, crop classes).",
    assumptions: &["the noise band accounts for the implementation accumulating y += step over the rows"],
    exhaustive: not_exhaustive,
};

fn profile() -> Profile {
    let mut p = Profile::standard();
    p.size_weights = [30, 90, 90, 30, 16];
    p.crop_weights = [60, 196];
    p.huge_max = 131_075;
    p
}

fn check(tape: &[u8], _ctx: &Ctx) -> Outcome {
    let mut t = Tape::new(tape);
    let tagged = t.chance(110);
    let mut spec = ResizeSpec::decode(&mut t, &profile());
    spec.alg = AlgSpec::Nearest;
    if tagged {
        spec.pt = fast_image_resize::PixelType::I32;
    }
    let spare_rows = 0u32;
    // the source through different containers: the generic row-step iterator (typed / cropped views) and the
    // specialised one of plain image references must select the same rows
    let slay = Layout::decode(
        &mut t,
        spec.sw,
        spec.sh,
        &[LKind::Plain, LKind::Oversized, LKind::Cropped, LKind::Nested, LKind::CroppedMutAsSrc, LKind::Owned],
    );
    let guard = t.chance(90);
    let mut o = Outcome::new(format!(
        "{}{}: {}",
        if tagged { "identity-tagged " } else { "" },
        format!("(source {})", slay.desc()),
        spec.desc()
    ));
    let c = img::comp(spec.pt);
    let nch = img::channels(spec.pt);
    let ps = spec.pt.size();
    let npx = spec.sw as usize * spec.sh as usize;
    let spare = spare_rows as usize * spec.sw as usize;
    let placement = if guard { Placement::GuardEnd } else { Placement::Heap };
    let mut src = Buf::new((npx + spare) * ps);
    if tagged {
        for i in 0..npx + spare {
            img::set_comp(c, src.bytes_mut(), i, i as f64);
        }
    } else {
        img::fill_content(spec.pt, spec.sw, spec.sh + spare_rows, spec.content, src.bytes_mut());
    }
    let len = spec.dw as usize * spec.dh as usize * ps;
    let mut dst = Buf::placed(len, placement);
    dst.fill(0xA5);
    let opts = spec.options();
    struct Run<'a> {
        spec: &'a ResizeSpec,
        opts: &'a fast_image_resize::ResizeOptions,
        dst: &'a mut [u8],
    }
    impl<'a> SrcOp for Run<'a> {
        type Out = Result<(), String>;
        fn run<S: fast_image_resize::IntoImageView + Sync>(self, s: &S) -> Self::Out {
            let mut r = img::new_resizer(self.spec.ext);
            let mut d = Image::from_slice_u8(self.spec.dw, self.spec.dh, self.dst, self.spec.pt).map_err(|e| format!("{:?}", e))?;
            r.resize(s, &mut d, self.opts).map_err(|e| format!("{:?}", e))
        }
    }
    let sparent = slay.place(ps, src.bytes(), |i| (i * 13 % 251) as u8, placement);
    let res = catch(|| {
        match layout::with_src_dyn(&slay, spec.pt, sparent.bytes(), Run { spec: &spec, opts: &opts, dst: dst.bytes_mut() }) {
            Ok(r) => r,
            Err(e) => Err(format!("source container rejected: {}", e)),
        }
    });
    match res {
        Err(p) => {
            o.fail(format!("panic: {}", p));
            return o;
        }
        Ok(Err(e)) => {
            o.fail(format!("resize returned an error for a crop box inside the source: {}", e));
            return o;
        }
        Ok(Ok(())) => {}
    }
    let (l, tp, cw, ch) = spec.crop_box();
    let sb = src.bytes();
    let db = dst.bytes();
    let mut ambiguous = 0u64;
    for y in 0..spec.dh {
        let (ya, yb) = model::nearest_candidates(tp, ch, spec.dh, spec.sh, y);
        for x in 0..spec.dw {
            let (xa, xb) = model::nearest_candidates(l, cw, spec.dw, spec.sw, x);
            if xa != xb || ya != yb {
                ambiguous += 1;
            }
            let doff = (y as usize * spec.dw as usize + x as usize) * ps;
            let got = &db[doff..doff + ps];
            let mut ok = false;
            for &yy in &[ya, yb] {
                for &xx in &[xa, xb] {
                    let soff = (yy * spec.sw as usize + xx) * ps;
                    if &sb[soff..soff + ps] == got {
                        ok = true;
                    }
                }
            }
            if !ok {
                let soff = (ya * spec.sw as usize + xa) * ps;
                let desc = if tagged {
                    let v = img::get_comp(c, db, doff / c.size());
                    if v >= 0.0 && (v as usize) < npx + spare {
                        format!("holds source pixel (x={}, y={})", v as usize % spec.sw as usize, v as usize / spec.sw as usize)
                    } else {
                        format!("holds {:?} which is no source pixel (unwritten or out of bounds)", v)
                    }
                } else {
                    format!("bytes {:02x?} vs expected {:02x?}", got, &sb[soff..soff + ps])
                };
                o.fail(format!(
                    "destination pixel (x={}, y={}) must be a bit-exact copy of source pixel (x={}{}, y={}{}) but {}",
                    x,
                    y,
                    xa,
                    if xb != xa { format!(" or {}", xb) } else { String::new() },
                    ya,
                    if yb != ya { format!(" or {}", yb) } else { String::new() },
                    desc
                ));
                return o;
            }
        }
    }
    let _ = nch;
    o.label(format!("type:{}", img::pt_name(spec.pt)));
    o.label(format!("crop:{}/{}", crop_class_name(spec.crop_class.0), crop_class_name(spec.crop_class.1)));
    o.label_n("samples:ambiguous", ambiguous);
    o.label_n("samples", spec.dw as u64 * spec.dh as u64);
    if spare_rows > 0 {
        o.label("spare-source-rows");
    }
    if c == Comp::F32 || !tagged {
        o.label("random-content");
    }
    if !spec.is_copy() {
        o.nontrivial_key(fnv(
            format!(
                "{}|{}|{}|{}|{}|{:?}|{:?}",
                img::pt_name(spec.pt),
                spec.sw,
                spec.sh,
                spec.dw,
                spec.dh,
                spec.crop_class,
                spec.crop_box()
            )
            .as_bytes(),
        ));
    }
    o
}
