//! C02 — SIMD back-ends compute the same image as the portable back-end.
use crate::exec;
use crate::img::{self, Buf, Comp, Content, Placement};
use crate::outcome::*;
use crate::runner::catch;
use crate::spec::{crop_class_name, AlgSpec, FilterSpec, Profile, ResizeSpec};
use crate::tape::{fnv, Tape};
use fast_image_resize as fr;
use fr::images::{Image, ImageRef};
use fr::CpuExtensions;

pub static PROP: PropDef = PropDef {
    id: "C02",
    builds: opt_only,
    max_tape: 80,
    cases: |t| match t {
        Tier::Quick => 400_000,
        Tier::Thorough => 6_000_000,
    },
    fixed: no_fixed,
    check,
    rule: "tape -> either a resize case (13 pixel types, all size classes so that component counts cover every residue of the 32/16/8/4 \
           vertical chunking and kernel lengths every residue of the 16/8/5/4/2 horizontal chunking, destination heights 1..9 for the 4-row \
           blocks, crops with non-zero first row/column, built-in and custom filters reaching other fixed-point precisions, alpha on/off; a small share of F32 images carries sparse +-inf / NaN samples, where non-finite results must coincide) \
           or a direct MulDiv call (multiply/divide x two-image/in-place on the 6 alpha types); each case runs on None and on every supported \
           SIMD extension with the same input. Oracle: integers byte-identical (16-bit alpha division: colour +-1, alpha identical); floats within \
           2 ulp + 2^-36 of the largest source magnitude. Non-trivial = a SIMD kernel exists for the type and a window of >= 2 taps (or an alpha \
           kernel) ran; distinct = (op, type, sizes, crop classes, algorithm, extension).",
    assumptions: &[
        "custom kernels beyond the documented head-room (sum|w| >= 4) are compared only when no fixed-point accumulator can overflow (255*sum|q| + round <= i32::MAX for 8-bit, the i64 analogue for 16-bit): then every back-end clamps the same exact value",
        "float alpha images use moderate magnitudes; non-finite values are never generated",
    ],
    exhaustive: not_exhaustive,
};

fn profile() -> Profile {
    let mut p = Profile::standard();
    p.allow_custom = true;
    p.exts = vec![CpuExtensions::None];
    p.size_weights = [16, 90, 110, 30, 10];
    p.huge_max = 131_075;
    p
}

/// Largest sum |w| over the normalised windows the library computes for this geometry
/// (through the read-only hook); None if a window has non-finite weights.
pub fn max_abs_sum(in_size: u32, in0: f64, in1: f64, out: u32, f: fr::FilterType, adaptive: bool) -> Option<(f64, usize)> {
    // never ask the hook for more than a few million coefficients
    let support = match f {
        fr::FilterType::Custom(c) => c.support(),
        _ => 3.0,
    };
    let scale = ((in1 - in0) / out.max(1) as f64).max(1.0);
    if !(scale.is_finite()) || (2.0 * support * scale + 3.0) * out as f64 > 8.0e6 {
        return None;
    }
    let d = fr::verif::coefficients(in_size, in0, in1, out, f, adaptive, false, false);
    let mut worst: f64 = 0.0;
    let mut taps = 0usize;
    if d.window_size == 0 {
        return Some((0.0, 0));
    }
    for (chunk, (_, size)) in d.values.chunks_exact(d.window_size).zip(&d.bounds) {
        let mut s = 0.0;
        for &w in &chunk[..(*size as usize).min(chunk.len())] {
            if !w.is_finite() {
                return None;
            }
            s += w.abs();
        }
        worst = worst.max(s);
        taps = taps.max(*size as usize);
    }
    Some((worst, taps))
}

/// sum|w| bound over every convolution the call performs (direct geometry, and for
/// SuperSampling the intermediate geometry). None = unclassifiable.
pub fn call_abs_sum(spec: &ResizeSpec) -> Option<(f64, usize)> {
    let (l, t, cw, ch) = spec.crop_box();
    let f = spec.alg.filter()?.to_fr();
    let mut worst: f64 = 0.0;
    let mut taps = 0;
    let mut add = |r: Option<(f64, usize)>| -> Option<()> {
        let (w, n) = r?;
        worst = worst.max(w);
        taps = taps.max(n);
        Some(())
    };
    match spec.alg {
        AlgSpec::Nearest => {}
        AlgSpec::Conv(_) | AlgSpec::Interp(_) => {
            let adaptive = matches!(spec.alg, AlgSpec::Conv(_));
            add(max_abs_sum(spec.sw, l, l + cw, spec.dw, f, adaptive))?;
            add(max_abs_sum(spec.sh, t, t + ch, spec.dh, f, adaptive))?;
        }
        AlgSpec::Super(_, m) => {
            if spec.dw == 0 || spec.dh == 0 || m == 0 {
                return None;
            }
            let factor = (cw / spec.dw as f64).min(ch / spec.dh as f64) / m as f64;
            if factor > 1.2 {
                let tw = (cw / factor).round() as u32;
                let th = (ch / factor).round() as u32;
                add(max_abs_sum(tw, 0.0, tw as f64, spec.dw, f, true))?;
                add(max_abs_sum(th, 0.0, th as f64, spec.dh, f, true))?;
                // rounding ties of the intermediate size: also the neighbours
                for (a, b) in [(tw + 1, th), (tw, th + 1), (tw.saturating_sub(1).max(1), th), (tw, th.saturating_sub(1).max(1))] {
                    add(max_abs_sum(a, 0.0, a as f64, spec.dw, f, true))?;
                    add(max_abs_sum(b, 0.0, b as f64, spec.dh, f, true))?;
                }
            } else {
                add(max_abs_sum(spec.sw, l, l + cw, spec.dw, f, true))?;
                add(max_abs_sum(spec.sh, t, t + ch, spec.dh, f, true))?;
            }
        }
    }
    Some((worst, taps))
}

/// Can the fixed-point accumulators of this geometry overflow? (u8: i32, u16: i64.)  None = cannot tell.
fn acc_safe_axis(c: Comp, in_size: u32, in0: f64, in1: f64, out: u32, f: fr::FilterType, adaptive: bool) -> Option<bool> {
    let support = match f {
        fr::FilterType::Custom(cf) => cf.support(),
        _ => 3.0,
    };
    let scale = ((in1 - in0) / out.max(1) as f64).max(1.0);
    if !(scale.is_finite()) || (2.0 * support * scale + 3.0) * out as f64 > 8.0e6 {
        return None;
    }
    let d = catch(|| fr::verif::coefficients(in_size, in0, in1, out, f, adaptive, c == Comp::U8, c == Comp::U16)).ok()?;
    match c {
        Comp::U8 => {
            let (p, chunks) = d.precision16?;
            // the library documents (debug_assert + unit test) that its SIMD code needs precision >= 4
            if p < 4 {
                return Some(false);
            }
            let round = 1i64 << (p - 1);
            Some(chunks.iter().all(|(_, q)| {
                let s: i64 = q.iter().map(|x| (*x as i64).abs()).sum();
                255 * s + round <= i32::MAX as i64
            }))
        }
        Comp::U16 => {
            let (p, chunks) = d.precision32?;
            if p < 4 {
                return Some(false);
            }
            let round = 1i128 << (p - 1);
            Some(chunks.iter().all(|(_, q)| {
                let s: i128 = q.iter().map(|x| (*x as i128).abs()).sum();
                65535 * s + round <= i64::MAX as i128
            }))
        }
        _ => Some(true),
    }
}

/// Accumulator safety of every convolution the call performs.
pub fn call_acc_safe(spec: &ResizeSpec) -> Option<bool> {
    let (l, t, cw, ch) = spec.crop_box();
    let f = spec.alg.filter()?.to_fr();
    let c = img::comp(spec.pt);
    let mut ok = true;
    let mut add = |r: Option<bool>| -> Option<()> {
        ok &= r?;
        Some(())
    };
    match spec.alg {
        AlgSpec::Nearest => {}
        AlgSpec::Conv(_) | AlgSpec::Interp(_) => {
            let adaptive = matches!(spec.alg, AlgSpec::Conv(_));
            add(acc_safe_axis(c, spec.sw, l, l + cw, spec.dw, f, adaptive))?;
            add(acc_safe_axis(c, spec.sh, t, t + ch, spec.dh, f, adaptive))?;
        }
        AlgSpec::Super(_, m) => {
            if spec.dw == 0 || spec.dh == 0 || m == 0 {
                return None;
            }
            let factor = (cw / spec.dw as f64).min(ch / spec.dh as f64) / m as f64;
            if factor > 1.2 {
                let tw = (cw / factor).round() as u32;
                let th = (ch / factor).round() as u32;
                for (a, b) in [(tw, th), (tw + 1, th + 1), (tw.saturating_sub(1).max(1), th.saturating_sub(1).max(1))] {
                    add(acc_safe_axis(c, a, 0.0, a as f64, spec.dw, f, true))?;
                    add(acc_safe_axis(c, b, 0.0, b as f64, spec.dh, f, true))?;
                }
            } else {
                add(acc_safe_axis(c, spec.sw, l, l + cw, spec.dw, f, true))?;
                add(acc_safe_axis(c, spec.sh, t, t + ch, spec.dh, f, true))?;
            }
        }
    }
    Some(ok)
}

pub fn has_simd_kernel(pt: fr::PixelType) -> bool {
    pt != fr::PixelType::I32
}

/// Compare two outputs of the same operation from different back-ends.
/// `alpha_div` = an alpha division took part (allows +-1 on 16-bit colour).
pub fn compare_backends(
    pt: fr::PixelType,
    a: &[u8],
    b: &[u8],
    alpha_div: bool,
    mmax: f64,
) -> Option<String> {
    compare_backends_amp(pt, a, b, alpha_div, mmax, 2.0)
}

/// `amp` = largest sum|w| of a normalised window of the call (>= 1): the factor by which a pass can
/// amplify a one-ulp difference of its input.
pub fn compare_backends_amp(
    pt: fr::PixelType,
    a: &[u8],
    b: &[u8],
    alpha_div: bool,
    mmax: f64,
    amp: f64,
) -> Option<String> {
    let amp2 = amp.max(1.0) * amp.max(1.0);
    let c = img::comp(pt);
    let nch = img::channels(pt);
    match c {
        Comp::U8 | Comp::I32 => img::bytes_diff(a, b).map(|i| {
            let ci = i / c.size();
            format!(
                "component {} (pixel {}, channel {}): portable {} vs SIMD {}",
                ci,
                ci / nch,
                ci % nch,
                img::get_comp(c, a, ci),
                img::get_comp(c, b, ci)
            )
        }),
        Comp::U16 => {
            let n = a.len() / 2;
            for i in 0..n {
                let x = img::get_comp(c, a, i);
                let y = img::get_comp(c, b, i);
                let is_alpha = img::has_alpha(pt) && i % nch == nch - 1;
                let tol = if alpha_div && img::has_alpha(pt) && !is_alpha { 1.0 } else { 0.0 };
                if (x - y).abs() > tol {
                    return Some(format!(
                        "component {} (pixel {}, channel {}): portable {} vs SIMD {} (allowed difference {})",
                        i,
                        i / nch,
                        i % nch,
                        x,
                        y,
                        tol
                    ));
                }
            }
            None
        }
        Comp::F32 => {
            let n = a.len() / 4;
            for i in 0..n {
                let x = img::get_comp(c, a, i);
                let y = img::get_comp(c, b, i);
                if x == y || (x.is_nan() && y.is_nan()) {
                    continue;
                }
                if !x.is_finite() || !y.is_finite() {
                    return Some(format!(
                        "component {} (pixel {}, channel {}): portable {:?} vs SIMD {:?} (non-finite results must agree)",
                        i,
                        i / nch,
                        i % nch,
                        x,
                        y
                    ));
                }
                // 2 ulp of the result, plus: a first-pass sample that sits on an f32 rounding boundary may round
                // differently after re-association (one ulp at the magnitude of the intermediate image, at most
                // about 2*mmax), which the second pass passes on with sum|w| <= 2
                let mut tol = 2f64.powi(-22) * x.abs().max(y.abs()) + 2f64.powi(-23) * amp2 * mmax + 1e-44;
                if alpha_div && img::has_alpha(pt) && i % nch != nch - 1 {
                    // colour = premultiplied / alpha: relative errors add, and absolute noise is amplified by 1/alpha
                    let ai = i - i % nch + nch - 1;
                    let al = img::get_comp(c, a, ai).abs().min(img::get_comp(c, b, ai).abs());
                    // colour = premultiplied / alpha with absolute errors E on both: |d(c/a)| <= E (1 + |c/a|) / |a|
                    let e = 2f64.powi(-21) * amp2 * mmax;
                    tol = 2f64.powi(-20) * x.abs().max(y.abs()) + e * (1.0 + x.abs().max(y.abs())) / al.max(1e-300) + e + 1e-44;
                }
                if !((x - y).abs() <= tol) {
                    return Some(format!(
                        "component {} (pixel {}, channel {}): portable {:?} vs SIMD {:?} (tolerance {:e})",
                        i,
                        i / nch,
                        i % nch,
                        x,
                        y,
                        tol
                    ));
                }
            }
            None
        }
    }
}

fn max_abs(pt: fr::PixelType, bytes: &[u8]) -> f64 {
    img::comps_f64(pt, bytes).iter().filter(|v| v.is_finite()).fold(0.0f64, |m, v| m.max(v.abs()))
}

fn check(tape: &[u8], ctx: &Ctx) -> Outcome {
    let mut t = Tape::new(tape);
    if t.chance(40) {
        return check_muldiv(&mut t, ctx);
    }
    let mut spec = ResizeSpec::decode(&mut t, &profile());
    if img::comp(spec.pt) == Comp::F32 && img::has_alpha(spec.pt) && spec.use_alpha && spec.content.class == 9 {
        spec.content.class = 1;
    }
    let nonfinite = img::comp(spec.pt) == Comp::F32 && !(spec.use_alpha && img::has_alpha(spec.pt)) && t.chance(20);
    if nonfinite {
        spec.content.class = img::CONTENT_NONFINITE;
    }
    let mut o = Outcome::new(spec.desc());
    // custom kernels: see the domain rule below
    let custom = matches!(spec.alg.filter(), Some(FilterSpec::Custom(_)));
    let sums = match catch(|| call_abs_sum(&spec)) {
        Ok(s) => s,
        Err(_) => None,
    };
    let amp = sums.map(|(s, _)| s).unwrap_or(2.0).max(2.0);
    let taps = match sums {
        Some((s, n)) => {
            if custom {
                // beyond the documented head-room the results must still agree as long as no fixed-point
                // accumulator can overflow (both back-ends then clamp the same exact value)
                if !(s < 1.0e6) {
                    o.label("skipped:custom-sum>=1e6");
                    return o;
                }
                if s >= 4.0 {
                    match catch(|| call_acc_safe(&spec)) {
                        Ok(Some(true)) => o.label("custom:sum>=4,accumulator-safe"),
                        _ => {
                            o.label("skipped:custom-accumulator-may-overflow");
                            return o;
                        }
                    }
                }
            }
            n
        }
        None => {
            o.label("skipped:unclassifiable-kernel");
            return o;
        }
    };
    // source and destination end flush against a PROT_NONE page: an over-read / over-write of a SIMD
    // kernel past the end of the buffers kills the worker, which is reported as a failure of the case
    let src = exec::src_image(&spec, Placement::GuardEnd);
    let mmax = max_abs(spec.pt, src.bytes());
    spec.ext = CpuExtensions::None;
    let base = match exec::run_resize(&spec, src.bytes(), 0x5A, Placement::GuardEnd) {
        Ok(r) => r,
        Err(p) => {
            if custom {
                o.label("skipped:portable-panic-custom");
                return o;
            }
            o.fail(format!("panic on the portable back-end: {}", p));
            return o;
        }
    };
    if let Err(e) = &base.result {
        o.label(format!("error:{}", e));
    }
    // precision label through the hook (u8 / u16 only)
    if let (Some(f), true) = (spec.alg.filter(), base.result.is_ok()) {
        let (l, _, cw, _) = spec.crop_box();
        let c = img::comp(spec.pt);
        if matches!(c, Comp::U8 | Comp::U16) && spec.need_h() {
            let adaptive = !matches!(spec.alg, AlgSpec::Interp(_));
            if let Ok(d) = catch(|| {
                fr::verif::coefficients(spec.sw, l, l + cw, spec.dw, f.to_fr(), adaptive, c == Comp::U8, c == Comp::U16)
            }) {
                if let Some((p, _)) = d.precision16 {
                    o.label(format!("precision16:{}", p));
                }
                if let Some((p, _)) = d.precision32 {
                    o.label(format!("precision32:{}", p));
                }
            }
        }
    }
    let alpha_div = spec.use_alpha && img::has_alpha(spec.pt) && !spec.is_copy() && !matches!(spec.alg, AlgSpec::Nearest);
    let mut ran_simd = false;
    for ext in img::exts() {
        if ext == CpuExtensions::None {
            continue;
        }
        let mut s2 = spec.clone();
        s2.ext = ext;
        let r = match exec::run_resize(&s2, src.bytes(), 0x5A, Placement::GuardEnd) {
            Ok(r) => r,
            Err(p) => {
                o.fail(format!("panic on {} but not on the portable back-end: {}", img::ext_name(ext), p));
                return o;
            }
        };
        if r.result != base.result {
            o.fail(format!(
                "result {:?} on {} but {:?} on the portable back-end",
                r.result,
                img::ext_name(ext),
                base.result
            ));
            return o;
        }
        if let Some(d) = compare_backends_amp(spec.pt, base.dst.bytes(), r.dst.bytes(), alpha_div, mmax, amp) {
            if alpha_div && img::comp(spec.pt) == Comp::U16 && ctx.is_known("F8-u16-simd-divide") {
                o.known("F8-u16-simd-divide");
                continue;
            }
            o.fail(format!("{} differs from the portable back-end: {}", img::ext_name(ext), d));
            return o;
        }
        ran_simd = true;
    }
    o.label(format!("type:{}", img::pt_name(spec.pt)));
    o.label(format!("alg:{}{}", spec.alg.kind(), if custom { "(custom)" } else { "" }));
    o.label(format!("crop:{}/{}", crop_class_name(spec.crop_class.0), crop_class_name(spec.crop_class.1)));
    o.label(format!("width-components-mod32:{}", (spec.dw as usize * img::channels(spec.pt)) % 32));
    o.label(format!("taps-mod16:{}", taps % 16));
    o.label(format!("dst-rows-mod4:{}", spec.dh % 4));
    if alpha_div {
        o.label("alpha-aware");
    }
    if nonfinite {
        o.label("content:non-finite-sprinkle");
    }
    if ran_simd && has_simd_kernel(spec.pt) && base.result.is_ok() && !spec.is_copy() && (taps >= 2 || alpha_div) {
        let key = format!(
            "r|{}|{}|{}|{}|{}|{:?}|{}|{}",
            img::pt_name(spec.pt),
            spec.sw,
            spec.sh,
            spec.dw,
            spec.dh,
            spec.crop_class,
            spec.alg.name(),
            spec.use_alpha
        );
        o.nontrivial_key(fnv(key.as_bytes()));
    }
    o
}

// ------------------------------------------------------------------ direct MulDiv

#[derive(Clone, Copy, Debug, PartialEq)]
pub enum MdOp {
    Mul,
    Div,
    MulInplace,
    DivInplace,
}

pub fn run_muldiv(
    op: MdOp,
    ext: CpuExtensions,
    pt: fr::PixelType,
    w: u32,
    h: u32,
    src: &[u8],
) -> Result<Result<Buf, String>, String> {
    let len = w as usize * h as usize * pt.size();
    let mut dst = Buf::new(len);
    let res = catch(|| {
        let md = img::new_muldiv(ext);
        match op {
            MdOp::Mul | MdOp::Div => {
                dst.fill(0x5A);
                let s = ImageRef::new(w, h, src, pt).map_err(|e| format!("{:?}", e))?;
                let mut d = Image::from_slice_u8(w, h, dst.bytes_mut(), pt).map_err(|e| format!("{:?}", e))?;
                if op == MdOp::Mul {
                    md.multiply_alpha(&s, &mut d).map_err(|e| format!("{:?}", e))
                } else {
                    md.divide_alpha(&s, &mut d).map_err(|e| format!("{:?}", e))
                }
            }
            _ => {
                dst.bytes_mut().copy_from_slice(&src[..len]);
                let mut d = Image::from_slice_u8(w, h, dst.bytes_mut(), pt).map_err(|e| format!("{:?}", e))?;
                if op == MdOp::MulInplace {
                    md.multiply_alpha_inplace(&mut d).map_err(|e| format!("{:?}", e))
                } else {
                    md.divide_alpha_inplace(&mut d).map_err(|e| format!("{:?}", e))
                }
            }
        }
    })?;
    Ok(res.map(|_| dst))
}

fn check_muldiv(t: &mut Tape, ctx: &Ctx) -> Outcome {
    let pt = t.pick(&img::ALPHA_PTS);
    let op = [MdOp::Mul, MdOp::Div, MdOp::MulInplace, MdOp::DivInplace][t.below(4) as usize];
    let w = t.range(1, 70);
    let h = t.range(1, 6);
    let mut content = Content {
        class: t.pick(&[1u8, 1, 2, 6, 3, 8, 7]),
        seed: t.u32() as u64,
    };
    if img::comp(pt) == Comp::F32 && content.class == 9 {
        content.class = 1;
    }
    let mut o = Outcome::new(format!(
        "{:?} {} {}x{} content={}#{:x}",
        op,
        img::pt_name(pt),
        w,
        h,
        content.name(),
        content.seed
    ));
    let src = img::make_image(pt, w, h, content, Placement::Heap);
    let base = match run_muldiv(op, CpuExtensions::None, pt, w, h, src.bytes()) {
        Ok(Ok(b)) => b,
        Ok(Err(e)) => {
            o.fail(format!("portable back-end returned {}", e));
            return o;
        }
        Err(p) => {
            o.fail(format!("panic on the portable back-end: {}", p));
            return o;
        }
    };
    let is_div = matches!(op, MdOp::Div | MdOp::DivInplace);
    let mmax = 0.0;
    for ext in img::exts() {
        if ext == CpuExtensions::None {
            continue;
        }
        let r = match run_muldiv(op, ext, pt, w, h, src.bytes()) {
            Ok(Ok(b)) => b,
            Ok(Err(e)) => {
                o.fail(format!("{} returned {}", img::ext_name(ext), e));
                return o;
            }
            Err(p) => {
                o.fail(format!("panic on {}: {}", img::ext_name(ext), p));
                return o;
            }
        };
        if let Some(d) = compare_backends(pt, base.bytes(), r.bytes(), is_div, mmax) {
            if is_div && img::comp(pt) == Comp::U16 && ctx.is_known("F8-u16-simd-divide") {
                o.known("F8-u16-simd-divide");
                continue;
            }
            o.fail(format!("{} differs from the portable back-end: {}", img::ext_name(ext), d));
            return o;
        }
    }
    o.label(format!("muldiv:{:?}", op));
    o.label(format!("type:{}", img::pt_name(pt)));
    o.label(format!("row-pixels-mod8:{}", w % 8));
    o.nontrivial_key(fnv(format!("m|{:?}|{}|{}|{}|{}", op, img::pt_name(pt), w, h, content.class).as_bytes()));
    o
}
