//! C13 — the result does not depend on the container or memory layout of the images.
use crate::exec;
use crate::img::{self, Buf, Comp, Content, Placement};
use crate::layout::{self, DstOp, LKind, Layout, SrcOp, TDstOp, TSrcOp};
use crate::outcome::*;
use crate::runner::catch;
use crate::spec::{Profile, ResizeSpec};
use crate::tape::{fnv, Tape};
use fast_image_resize as fr;
use fr::pixels::{F32x4, U16x2, U16x3, U8x3, U8x4, F32};
use fr::{CpuExtensions, ImageView, ImageViewMut, IntoImageView, IntoImageViewMut, PixelTrait, PixelType};

pub static PROP: PropDef = PropDef {
    id: "C13",
    builds: opt_only,
    max_tape: 120,
    cases: |t| match t {
        Tier::Quick => 300_000,
        Tier::Thorough => 4_000_000,
    },
    fixed: no_fixed,
    check,
    rule: "tape -> one logical operation {resize (all algorithms, crops, alpha on/off, back-ends) | multiply/divide alpha two-image or in-place | colour mapping | \
           component conversion} executed first with contiguous borrowed buffers through the dynamic entry point (baseline) and then through 3 other placements drawn from: \
           source as ImageRef / owned Image / oversized buffer / CroppedImage at an offset inside a larger parent / nested CroppedImage, destination as borrowed Image / owned Image / \
           oversized buffer / CroppedImageMut / nested CroppedImageMut, and (for U8x3, U8x4, U16x2, U16x3, F32, F32x4) the typed entry point with TypedImageRef / TypedImage / \
           TypedCroppedImage(Mut) by reference or by value / nested, parents filled with random filler and optionally ending flush against a guard page. Oracle: the destination \
           rectangle is byte-identical to the baseline and the Result is the same. Non-trivial = a layout with stride != width (cropped/nested) on either side was exercised; \
           distinct = (operation, types, sizes, placements, entry point).",
    assumptions: &["each placement uses the same back-end, so identical arithmetic is expected and the comparison is exact"],
    exhaustive: not_exhaustive,
};

fn profile() -> Profile {
    let mut p = Profile::standard();
    p.allow_nearest = true;
    p.size_weights = [24, 110, 100, 14, 2];
    p.long_max = 600;
    p
}

#[derive(Clone, Debug)]
enum OpSpec {
    Resize(ResizeSpec),
    MulDiv { divide: bool, inplace: bool, pt: PixelType, w: u32, h: u32, ext: CpuExtensions },
    Map { srgb: bool, forward: bool, inplace: bool, pt: PixelType, dst_pt: PixelType, w: u32, h: u32 },
    Convert { pt: PixelType, dst_pt: PixelType, w: u32, h: u32 },
}

impl OpSpec {
    fn desc(&self) -> String {
        match self {
            OpSpec::Resize(s) => format!("resize {}", s.desc()),
            OpSpec::MulDiv { divide, inplace, pt, w, h, ext } => format!(
                "{}_alpha{} {} {}x{} on {}",
                if *divide { "divide" } else { "multiply" },
                if *inplace { "_inplace" } else { "" },
                img::pt_name(*pt),
                w,
                h,
                img::ext_name(*ext)
            ),
            OpSpec::Map { srgb, forward, inplace, pt, dst_pt, w, h } => format!(
                "{} {}_map{} {}->{} {}x{}",
                if *srgb { "srgb" } else { "gamma22" },
                if *forward { "forward" } else { "backward" },
                if *inplace { "_inplace" } else { "" },
                img::pt_name(*pt),
                img::pt_name(*dst_pt),
                w,
                h
            ),
            OpSpec::Convert { pt, dst_pt, w, h } => {
                format!("convert {}->{} {}x{}", img::pt_name(*pt), img::pt_name(*dst_pt), w, h)
            }
        }
    }
    fn src(&self) -> (PixelType, u32, u32) {
        match self {
            OpSpec::Resize(s) => (s.pt, s.sw, s.sh),
            OpSpec::MulDiv { pt, w, h, .. } | OpSpec::Map { pt, w, h, .. } | OpSpec::Convert { pt, w, h, .. } => (*pt, *w, *h),
        }
    }
    fn dst(&self) -> (PixelType, u32, u32) {
        match self {
            OpSpec::Resize(s) => (s.pt, s.dw, s.dh),
            OpSpec::MulDiv { pt, w, h, .. } => (*pt, *w, *h),
            OpSpec::Map { dst_pt, w, h, .. } | OpSpec::Convert { dst_pt, w, h, .. } => (*dst_pt, *w, *h),
        }
    }
    fn inplace(&self) -> bool {
        matches!(self, OpSpec::MulDiv { inplace: true, .. } | OpSpec::Map { inplace: true, .. })
    }
}

type Res = Result<(), String>;

// ---- dynamic entry: source container -> destination container -> operation
struct DynOuter<'a> {
    op: &'a OpSpec,
    dlay: &'a Layout,
    dparent: &'a mut [u8],
}
struct DynInner<'a, S> {
    op: &'a OpSpec,
    src: &'a S,
}

impl<'a> SrcOp for DynOuter<'a> {
    type Out = Result<Res, String>;
    fn run<S: IntoImageView + Sync>(self, src: &S) -> Self::Out {
        let (dpt, _, _) = self.op.dst();
        layout::with_dst_dyn(self.dlay, dpt, self.dparent, DynInner { op: self.op, src })
    }
}

impl<'a, S: IntoImageView + Sync> DstOp for DynInner<'a, S> {
    type Out = Res;
    fn run<D: IntoImageViewMut + Send>(self, dst: &mut D) -> Res {
        let e = |x: String| x;
        match self.op {
            OpSpec::Resize(spec) => {
                let mut r = img::new_resizer(spec.ext);
                r.resize(self.src, dst, &spec.options()).map_err(|x| e(format!("{:?}", x)))
            }
            OpSpec::MulDiv { divide, inplace, ext, .. } => {
                let md = img::new_muldiv(*ext);
                match (*inplace, *divide) {
                    (true, true) => md.divide_alpha_inplace(dst).map_err(|x| format!("{:?}", x)),
                    (true, false) => md.multiply_alpha_inplace(dst).map_err(|x| format!("{:?}", x)),
                    (false, true) => md.divide_alpha(self.src, dst).map_err(|x| format!("{:?}", x)),
                    (false, false) => md.multiply_alpha(self.src, dst).map_err(|x| format!("{:?}", x)),
                }
            }
            OpSpec::Map { srgb, forward, inplace, .. } => {
                let m = if *srgb { exec::srgb_mapper() } else { exec::gamma22_mapper() };
                match (*inplace, *forward) {
                    (true, true) => m.forward_map_inplace(dst).map_err(|x| format!("{:?}", x)),
                    (true, false) => m.backward_map_inplace(dst).map_err(|x| format!("{:?}", x)),
                    (false, true) => m.forward_map(self.src, dst).map_err(|x| format!("{:?}", x)),
                    (false, false) => m.backward_map(self.src, dst).map_err(|x| format!("{:?}", x)),
                }
            }
            OpSpec::Convert { .. } => fr::change_type_of_pixel_components(self.src, dst).map_err(|x| format!("{:?}", x)),
        }
    }
}

// ---- typed entry
struct TOuter<'a> {
    op: &'a OpSpec,
    dlay: &'a Layout,
    dvariant: u8,
    dparent: &'a mut [u8],
}
struct TInner<'a, S> {
    op: &'a OpSpec,
    src: &'a S,
}

impl<'a, P: PixelTrait> TSrcOp<P> for TOuter<'a> {
    type Out = Result<Res, String>;
    fn run<S: ImageView<Pixel = P>>(self, src: &S) -> Self::Out {
        layout::with_dst_typed::<P, _>(self.dlay, self.dvariant, self.dparent, TInner { op: self.op, src })
    }
}

impl<'a, P: PixelTrait, S: ImageView<Pixel = P>> TDstOp<P> for TInner<'a, S> {
    type Out = Res;
    fn run<D: ImageViewMut<Pixel = P>>(self, dst: &mut D) -> Res {
        match self.op {
            OpSpec::Resize(spec) => {
                let mut r = img::new_resizer(spec.ext);
                r.resize_typed(self.src, dst, &spec.options()).map_err(|x| format!("{:?}", x))
            }
            OpSpec::MulDiv { divide, inplace, ext, .. } => {
                let md = img::new_muldiv(*ext);
                match (*inplace, *divide) {
                    (true, true) => md.divide_alpha_inplace_typed(dst).map_err(|x| format!("{:?}", x)),
                    (true, false) => md.multiply_alpha_inplace_typed(dst).map_err(|x| format!("{:?}", x)),
                    (false, true) => md.divide_alpha_typed(self.src, dst).map_err(|x| format!("{:?}", x)),
                    (false, false) => md.multiply_alpha_typed(self.src, dst).map_err(|x| format!("{:?}", x)),
                }
            }
            _ => Err("no typed entry point".to_string()),
        }
    }
}

fn typed_supported(pt: PixelType) -> bool {
    matches!(
        pt,
        PixelType::U8x3 | PixelType::U8x4 | PixelType::U16x2 | PixelType::U16x3 | PixelType::F32 | PixelType::F32x4
    )
}

#[allow(clippy::too_many_arguments)]
fn run_typed(
    pt: PixelType,
    op: &OpSpec,
    slay: &Layout,
    svariant: u8,
    sparent: &[u8],
    dlay: &Layout,
    dvariant: u8,
    dparent: &mut [u8],
) -> Result<Result<Res, String>, String> {
    macro_rules! go {
        ($p:ty) => {
            layout::with_src_typed::<$p, _>(slay, svariant, sparent, TOuter { op, dlay, dvariant, dparent })
        };
    }
    match pt {
        PixelType::U8x3 => go!(U8x3),
        PixelType::U8x4 => go!(U8x4),
        PixelType::U16x2 => go!(U16x2),
        PixelType::U16x3 => go!(U16x3),
        PixelType::F32 => go!(F32),
        PixelType::F32x4 => go!(F32x4),
        _ => Err("type not in the typed subset".to_string()),
    }
}

const MAP_PTS: [PixelType; 8] = [
    PixelType::U8,
    PixelType::U8x2,
    PixelType::U8x3,
    PixelType::U8x4,
    PixelType::U16,
    PixelType::U16x2,
    PixelType::U16x3,
    PixelType::U16x4,
];

fn decode_op(t: &mut Tape) -> OpSpec {
    match t.weighted(&[160, 40, 28, 28]) {
        0 => OpSpec::Resize(ResizeSpec::decode(t, &profile())),
        1 => OpSpec::MulDiv {
            pt: t.pick(&img::ALPHA_PTS),
            divide: t.bool(),
            inplace: t.bool(),
            w: t.range(1, 40),
            h: t.range(1, 10),
            ext: t.pick(&img::exts()),
        },
        2 => {
            let pt = t.pick(&MAP_PTS);
            let inplace = t.bool();
            let dst_pt = if inplace || t.bool() {
                pt
            } else {
                img::pt_of(if img::comp(pt) == Comp::U8 { Comp::U16 } else { Comp::U8 }, img::channels(pt)).unwrap()
            };
            OpSpec::Map {
                srgb: t.bool(),
                forward: t.bool(),
                inplace,
                pt,
                dst_pt,
                w: t.range(1, 30),
                h: t.range(1, 8),
            }
        }
        _ => {
            let pt = t.pick(&img::PT13);
            let nch = img::channels(pt);
            let mut comps = vec![Comp::U8, Comp::U16, Comp::F32];
            if nch == 1 {
                comps.push(Comp::I32);
            }
            OpSpec::Convert {
                pt,
                dst_pt: img::pt_of(t.pick(&comps), nch).unwrap(),
                w: t.range(1, 30),
                h: t.range(1, 8),
            }
        }
    }
}

fn filler(i: usize) -> u8 {
    ((i * 37 + 11) % 251) as u8
}

struct Placed {
    slay: Layout,
    dlay: Layout,
    typed: bool,
    svariant: u8,
    dvariant: u8,
    guard: bool,
}

fn check(tape: &[u8], _ctx: &Ctx) -> Outcome {
    let mut t = Tape::new(tape);
    let op = decode_op(&mut t);
    let content = Content {
        class: t.pick(&[1u8, 1, 2, 3, 8, 6]),
        seed: t.u32() as u64,
    };
    let (spt, sw, sh) = op.src();
    let (dpt, dw, dh) = op.dst();
    let mut o = Outcome::new(op.desc());
    let mut src_content = img::make_image(spt, sw, sh, content, Placement::Heap);
    if img::comp(spt) == Comp::F32 {
        let n = src_content.len() / 4;
        for i in 0..n {
            let v = img::get_comp(Comp::F32, src_content.bytes(), i);
            if !v.is_finite() || v.abs() > 1e6 {
                img::set_comp(Comp::F32, src_content.bytes_mut(), i, 0.75);
            }
        }
    }
    let sps = spt.size();
    let dps = dpt.size();
    let inplace = op.inplace();
    let dst_init: Vec<u8> = if inplace {
        src_content.bytes().to_vec()
    } else {
        vec![0x5A; dw as usize * dh as usize * dps]
    };

    let run_one = |p: &Placed| -> Result<(Res, Vec<u8>), String> {
        let placement = if p.guard { Placement::GuardEnd } else { Placement::Heap };
        let sparent = p.slay.place(sps, src_content.bytes(), filler, placement);
        let mut dparent = p.dlay.place(dps, &dst_init, filler, placement);
        let r = catch(|| {
            if p.typed {
                run_typed(spt, &op, &p.slay, p.svariant, sparent.bytes(), &p.dlay, p.dvariant, dparent.bytes_mut())
            } else {
                layout::with_src_dyn(
                    &p.slay,
                    spt,
                    sparent.bytes(),
                    DynOuter {
                        op: &op,
                        dlay: &p.dlay,
                        dparent: dparent.bytes_mut(),
                    },
                )
            }
        });
        match r {
            Err(pn) => Err(format!("panic: {}", pn)),
            Ok(Err(e)) => Err(format!("source container rejected: {}", e)),
            Ok(Ok(Err(e))) => Err(format!("destination container rejected: {}", e)),
            Ok(Ok(Ok(res))) => {
                if let Some(off) = p.dlay.outside_changed(dps, dparent.bytes(), filler) {
                    return Err(format!(
                        "bytes outside the destination view were modified at offset {} ({})",
                        off,
                        p.dlay.locate(dps, off)
                    ));
                }
                Ok((res, p.dlay.extract(dps, dparent.bytes())))
            }
        }
    };

    let base = Placed {
        slay: Layout::plain(sw, sh),
        dlay: Layout::plain(dw, dh),
        typed: false,
        svariant: 0,
        dvariant: 0,
        guard: false,
    };
    let (bres, bbytes) = match run_one(&base) {
        Ok(x) => x,
        Err(e) => {
            o.fail(format!("baseline (contiguous, dynamic): {}", e));
            return o;
        }
    };
    if let Err(e) = &bres {
        o.label(format!("baseline-error:{}", e));
    }
    let typed_ok = typed_supported(spt) && spt == dpt && matches!(op, OpSpec::Resize(_) | OpSpec::MulDiv { .. });
    let mut strided = false;
    let mut keyparts = String::new();
    for _ in 0..3 {
        let typed = typed_ok && t.bool();
        // vary one side, or both
        let both = t.chance(90);
        let vary_src = both || t.bool();
        let slay = if vary_src && !inplace {
            // user-defined views with rows longer than their width are allowed by the ImageView contract but are not
            // among the containers the property lists: an exploration extra, off unless FIRV_EXTRA=padded (DESIGN 8.4)
            if typed && std::env::var("FIRV_EXTRA").map(|v| v.contains("padded")).unwrap_or(false) && t.chance(50) {
                Layout::decode(&mut t, sw, sh, &[LKind::PaddedRows])
            } else {
                Layout::decode(&mut t, sw, sh, &layout::DYN_SRC_KINDS)
            }
        } else {
            Layout::plain(sw, sh)
        };
        let dlay = if !vary_src || both || inplace {
            Layout::decode(&mut t, dw, dh, &layout::DYN_DST_KINDS)
        } else {
            Layout::plain(dw, dh)
        };
        let p = Placed {
            slay,
            dlay,
            typed,
            svariant: t.u8(),
            dvariant: t.u8(),
            guard: t.chance(100),
        };
        let what = format!(
            "{} entry, source {}, destination {}{}",
            if p.typed { "typed" } else { "dynamic" },
            p.slay.desc(),
            p.dlay.desc(),
            if p.guard { ", guard pages" } else { "" }
        );
        match run_one(&p) {
            Err(e) => {
                o.fail(format!("{}: {}", what, e));
                return o;
            }
            Ok((res, bytes)) => {
                if res != bres {
                    o.fail(format!("{}: returned {:?} but the contiguous baseline returned {:?}", what, res, bres));
                    return o;
                }
                if let Some(i) = img::bytes_diff(&bbytes, &bytes) {
                    let px = i / dps;
                    o.fail(format!(
                        "{}: destination pixel (x={}, y={}) differs from the contiguous baseline (byte {:#04x} vs {:#04x})",
                        what,
                        px % dw.max(1) as usize,
                        px / dw.max(1) as usize,
                        bytes[i],
                        bbytes[i]
                    ));
                    return o;
                }
            }
        }
        if p.slay.strided() || p.dlay.strided() {
            strided = true;
        }
        o.label(format!("entry:{}", if p.typed { "typed" } else { "dynamic" }));
        o.label(format!("src:{:?}", p.slay.kind));
        o.label(format!("dst:{:?}", p.dlay.kind));
        keyparts.push_str(&format!("{:?}{:?}{}{}{}", p.slay, p.dlay, p.typed, p.svariant % 2, p.dvariant % 2));
    }
    o.label(format!(
        "op:{}",
        match &op {
            OpSpec::Resize(_) => "resize",
            OpSpec::MulDiv { .. } => "muldiv",
            OpSpec::Map { .. } => "map",
            OpSpec::Convert { .. } => "convert",
        }
    ));
    o.label(format!("type:{}", img::pt_name(spt)));
    if strided && bres.is_ok() {
        o.nontrivial_key(fnv(format!("{}|{}", op.desc(), keyparts).as_bytes()));
    }
    let _ = LKind::Plain;
    let _ = Buf::new(0);
    o
}
