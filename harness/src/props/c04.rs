//! C04 — geometry validation accepts exactly the regions that lie inside the image.
use crate::img::{self, Buf};
use crate::outcome::*;
use crate::runner::catch;
use crate::tape::{fnv, Tape};
use fast_image_resize as fr;
use fr::images::{
    CroppedImage, CroppedImageMut, Image, ImageRef, TypedCroppedImage, TypedCroppedImageMut, TypedImage, TypedImageRef,
};
use fr::pixels::{U16x3, U8x4, F32, I32, U8};
use fr::{CropBoxError, ImageBufferError, ImageView, IntoImageView, PixelType};

pub static PROP: PropDef = PropDef {
    id: "C04",
    builds: opt_and_dbg,
    max_tape: 64,
    cases: |t| match t {
        Tier::Quick => 1_000_000,
        Tier::Thorough => 12_000_000,
    },
    fixed,
    check,
    rule: "(a) u32 rectangles (left, top, width, height) with every coordinate from {0,1,2,img-1,img,img+1,2^31,u32::MAX-1,u32::MAX,random} for TypedCroppedImage::{new,from_ref}, \
           TypedCroppedImageMut::{new,from_ref}, CroppedImage::new, CroppedImageMut::new and a nested crop, on identity-tagged parents of size 0..4 x 0..4 enumerated exhaustively with the \
           boundary set (fixed tapes) and random larger parents; (b) f64 crop boxes for ResizeOptions::crop from {0,-0.0,+-eps,integers,img+-ulp,NaN,+-inf,+-1e300,denormals,random}; \
           (c) (width, height, buffer length, misalignment) for the nine buffer/pixel constructors with length in {required-1, required, required+1, required+row, 0} and dimensions up to u32::MAX. \
           Oracle: accepted <=> finite, origin >= 0, size >= 0, left+width <= img_w, top+height <= img_h evaluated in u128 / f64 (buffers: length >= w*h*size in u128 and aligned pointer); \
           don't-care: an empty box whose origin is exactly on the far edge, a zero-area crop box given to resize (documented no-op), and the error variant where two apply. Accepted views \
           must report the rectangle's size and expose exactly height-k rows of exactly width pixels equal to parent pixels (left+x, top+y). Never a panic. Non-trivial = at least one coordinate \
           on a boundary value (not strictly interior); distinct = the coordinate tuple with constructor kind.",
    assumptions: &["a crop box that sticks out of the image by less than one f64 ulp of the edge coordinate is indistinguishable from one that touches it"],
    exhaustive: |_| false,
};

fn fixed(_tier: Tier) -> Vec<Vec<u8>> {
    let mut v = Vec::new();
    for kind in 0..7u8 {
        for pw in 0..=4u8 {
            for ph in 0..=4u8 {
                v.push(vec![0xEE, kind, pw, ph, 0xEE]);
            }
        }
    }
    // parents with a side of u32::MAX (and no pixels): arithmetic at the top of the range
    for kind in [0u8, 1, 4, 6] {
        for code in 0..4u8 {
            v.push(vec![0xEE, kind, 200 + code, 0, 0xEE]);
        }
    }
    v
}

// ------------------------------------------------------------------ (a) u32 rectangles

fn inside(pw: u32, ph: u32, l: u32, t: u32, w: u32, h: u32) -> bool {
    (l as u128 + w as u128) <= pw as u128 && (t as u128 + h as u128) <= ph as u128
}

/// empty box whose origin sits on the far edge (the library documents it as out of bounds)
fn dont_care(pw: u32, ph: u32, l: u32, t: u32, w: u32, h: u32) -> bool {
    inside(pw, ph, l, t, w, h) && (l == pw || t == ph)
}

const KIND_NAMES: [&str; 7] = [
    "TypedCroppedImage::new",
    "TypedCroppedImage::from_ref",
    "TypedCroppedImageMut::new",
    "TypedCroppedImageMut::from_ref",
    "CroppedImage::new",
    "CroppedImageMut::new",
    "nested TypedCroppedImage",
];

fn tagged_parent(pw: u32, ph: u32) -> Buf {
    // one spare row behind the image (every constructor accepts a longer buffer); nothing may ever expose it
    let n = (pw as u64 * ph as u64).min(1 << 20) as usize + pw.min(64) as usize;
    let mut b = Buf::new(n * 4);
    for i in 0..n {
        b.bytes_mut()[4 * i..4 * i + 4].copy_from_slice(&(i as i32).to_ne_bytes());
    }
    b
}

/// Verifies an accepted view against the parent tags.
fn verify_view<V: ImageView<Pixel = I32>>(v: &V, pw: u32, l: u32, t: u32, w: u32, h: u32) -> Result<(), String> {
    if v.width() != w || v.height() != h {
        return Err(format!("view reports {}x{} instead of {}x{}", v.width(), v.height(), w, h));
    }
    for k in 0..=h.min(3) {
        let mut count = 0u32;
        for (y, row) in v.iter_rows(k).enumerate() {
            if y as u32 >= h - k + 2 {
                return Err(format!("iter_rows({}) yields more than {} rows", k, h - k));
            }
            if row.len() != w as usize {
                return Err(format!("row {} of iter_rows({}) has {} pixels instead of {}", y, k, row.len(), w));
            }
            for (x, p) in row.iter().enumerate() {
                let want = (t + k + y as u32) as i64 * pw as i64 + (l as i64 + x as i64);
                if p.0 as i64 != want {
                    return Err(format!(
                        "pixel ({}, {}) of the view is parent tag {} instead of {} (parent pixel ({}, {}))",
                        x,
                        k + y as u32,
                        p.0,
                        want,
                        l as usize + x,
                        t + k + y as u32
                    ));
                }
            }
            count += 1;
        }
        // a view of width 0 exposes no pixels and may yield no rows at all
        if w > 0 && count != h - k {
            return Err(format!("iter_rows({}) yields {} rows instead of {}", k, count, h - k));
        }
    }
    Ok(())
}

/// The mutable row iterator of an accepted view exposes exactly height-k rows of exactly `width` pixels.
fn verify_rows_mut<V: fr::ImageViewMut<Pixel = I32>>(v: &mut V, w: u32, h: u32) -> Result<(), String> {
    for k in 0..=h.min(3) {
        let mut count = 0u32;
        for row in v.iter_rows_mut(k) {
            if row.len() != w as usize {
                return Err(format!("iter_rows_mut({}) yields a row of {} pixels instead of {}", k, row.len(), w));
            }
            count += 1;
            if count > h + 2 {
                break;
            }
        }
        if w > 0 && count != h - k {
            return Err(format!("iter_rows_mut({}) yields {} rows instead of {}", k, count, h - k));
        }
    }
    Ok(())
}

fn judge_rect(
    pw: u32,
    ph: u32,
    q: (u32, u32, u32, u32),
    res: Result<Result<(), String>, CropBoxError>,
) -> Result<(), String> {
    let (l, t, w, h) = q;
    let ins = inside(pw, ph, l, t, w, h);
    match res {
        Ok(viewcheck) => {
            if !ins {
                return Err(format!(
                    "rectangle ({},{},{},{}) does not lie inside the {}x{} image but was accepted",
                    l, t, w, h, pw, ph
                ));
            }
            viewcheck
        }
        Err(_e) => {
            if ins && !dont_care(pw, ph, l, t, w, h) {
                return Err(format!(
                    "rectangle ({},{},{},{}) lies inside the {}x{} image but was rejected with {:?}",
                    l, t, w, h, pw, ph, _e
                ));
            }
            Ok(())
        }
    }
}

fn try_rect(kind: u8, pw: u32, ph: u32, parent: &mut Buf, q: (u32, u32, u32, u32)) -> Result<(), String> {
    let (l, t, w, h) = q;
    let r = catch(|| -> Result<(), String> {
        match kind {
            0 => {
                let p = TypedImageRef::<I32>::from_buffer(pw, ph, parent.bytes()).map_err(|e| format!("{:?}", e))?;
                let res = TypedCroppedImage::new(p, l, t, w, h).map(|v| verify_view(&v, pw, l, t, w, h));
                judge_rect(pw, ph, q, res)
            }
            1 => {
                let p = TypedImageRef::<I32>::from_buffer(pw, ph, parent.bytes()).map_err(|e| format!("{:?}", e))?;
                let res = TypedCroppedImage::from_ref(&p, l, t, w, h).map(|v| verify_view(&v, pw, l, t, w, h));
                judge_rect(pw, ph, q, res)
            }
            2 => {
                let p = TypedImage::<I32>::from_buffer(pw, ph, parent.bytes_mut()).map_err(|e| format!("{:?}", e))?;
                let res = TypedCroppedImageMut::new(p, l, t, w, h).map(|mut v| {
                    verify_view(&v, pw, l, t, w, h)?;
                    verify_rows_mut(&mut v, w, h)
                });
                judge_rect(pw, ph, q, res)
            }
            3 => {
                let mut p = TypedImage::<I32>::from_buffer(pw, ph, parent.bytes_mut()).map_err(|e| format!("{:?}", e))?;
                verify_rows_mut(&mut p, pw, ph)?;
                let res = TypedCroppedImageMut::from_ref(&mut p, l, t, w, h).map(|mut v| {
                    verify_view(&v, pw, l, t, w, h)?;
                    verify_rows_mut(&mut v, w, h)
                });
                judge_rect(pw, ph, q, res)
            }
            4 => {
                let p = ImageRef::new(pw, ph, parent.bytes(), PixelType::I32).map_err(|e| format!("{:?}", e))?;
                let res = CroppedImage::new(&p, l, t, w, h).map(|c| {
                    if IntoImageView::width(&c) != w || IntoImageView::height(&c) != h {
                        return Err("cropped image reports a different size".to_string());
                    }
                    match c.image_view::<I32>() {
                        Some(v) => verify_view(&v, pw, l, t, w, h),
                        None => Err("image_view::<I32>() returned None".to_string()),
                    }
                });
                judge_rect(pw, ph, q, res)
            }
            5 => {
                let mut p = Image::from_slice_u8(pw, ph, parent.bytes_mut(), PixelType::I32).map_err(|e| format!("{:?}", e))?;
                let res = CroppedImageMut::new(&mut p, l, t, w, h).map(|c| match c.image_view::<I32>() {
                    Some(v) => verify_view(&v, pw, l, t, w, h),
                    None => Err("image_view::<I32>() returned None".to_string()),
                });
                judge_rect(pw, ph, q, res)
            }
            _ => {
                // nested: outer crop drops the first column/row where possible, inner rectangle relative to it
                let p = TypedImageRef::<I32>::from_buffer(pw, ph, parent.bytes()).map_err(|e| format!("{:?}", e))?;
                let (ol, ot) = (if pw > 1 { 1 } else { 0 }, if ph > 1 { 1 } else { 0 });
                let (ow, oh) = (pw - ol, ph - ot);
                let outer = match TypedCroppedImage::from_ref(&p, ol, ot, ow, oh) {
                    Ok(v) => v,
                    Err(_) => return Ok(()), // empty parents cannot be cropped at all (don't-care class)
                };
                let res = TypedCroppedImage::from_ref(&outer, l, t, w, h).map(|v| {
                    if inside(ow, oh, l, t, w, h) {
                        verify_view(&v, pw, l + ol, t + ot, w, h)
                    } else {
                        Ok(())
                    }
                });
                judge_rect(ow, oh, q, res)
            }
        }
    });
    match r {
        Ok(x) => x,
        Err(p) => Err(format!(
            "panic in {} for rectangle ({},{},{},{}) on a {}x{} image: {}",
            KIND_NAMES[kind as usize % 7],
            l,
            t,
            w,
            h,
            pw,
            ph,
            p
        )),
    }
}

fn boundary_set(img: u32) -> Vec<u32> {
    let mut v = vec![
        0,
        1,
        2,
        img.wrapping_sub(1),
        img,
        img.wrapping_add(1),
        1 << 31,
        u32::MAX - 1,
        u32::MAX,
        u32::MAX - img,
        (u32::MAX - img).wrapping_add(1),
    ];
    v.sort();
    v.dedup();
    v
}

fn rect_literal(kind: u8, pw: u32, ph: u32, q: (u32, u32, u32, u32)) -> Vec<u8> {
    let mut t = vec![0xED, kind];
    for v in [pw, ph, q.0, q.1, q.2, q.3] {
        t.extend_from_slice(&v.to_be_bytes());
    }
    t
}

fn enumerate_rects(kind: u8, pw: u32, ph: u32) -> Outcome {
    let mut o = Outcome::new(format!(
        "all rectangles with coordinates from the boundary set on a {}x{} parent through {}",
        pw,
        ph,
        KIND_NAMES[kind as usize % 7]
    ));
    o.evals = 0;
    let mut parent = tagged_parent(pw, ph);
    let xs = boundary_set(pw);
    let ys = boundary_set(ph);
    let mut accepted = 0u64;
    for &l in &xs {
        for &t in &ys {
            for &w in &xs {
                for &h in &ys {
                    o.evals += 1;
                    if inside(pw, ph, l, t, w, h) {
                        accepted += 1;
                    }
                    if let Err(e) = try_rect(kind, pw, ph, &mut parent, (l, t, w, h)) {
                        o.fail(format!("{}: {}", KIND_NAMES[kind as usize % 7], e));
                        o.repro = Some(rect_literal(kind, pw, ph, (l, t, w, h)));
                        return o;
                    }
                }
            }
        }
    }
    o.bulk_nontrivial = o.evals;
    o.label_n("rect:model-inside", accepted);
    o.label_n("rect:enumerated", o.evals);
    o
}

fn gen_coord(t: &mut Tape, img: u32) -> u32 {
    match t.below(12) {
        0 => 0,
        1 => 1,
        2 => img.wrapping_sub(1),
        3 => img,
        4 => img.wrapping_add(1),
        5 => 1 << 31,
        6 => u32::MAX,
        7 => u32::MAX - 1,
        8 => u32::MAX - t.range(0, img.max(1)),
        9 | 10 => t.range(0, img.max(1)),
        _ => t.u32(),
    }
}

fn check_rect(t: &mut Tape) -> Outcome {
    let kind = t.below(7) as u8;
    let pw = if t.chance(40) { t.range(0, 2) } else { t.range(0, 40) };
    let ph = if t.chance(40) { t.range(0, 2) } else { t.range(0, 24) };
    let q = (gen_coord(t, pw), gen_coord(t, ph), gen_coord(t, pw), gen_coord(t, ph));
    rect_case(kind, pw, ph, q)
}

fn rect_case(kind: u8, pw: u32, ph: u32, q: (u32, u32, u32, u32)) -> Outcome {
    let mut o = Outcome::new(format!(
        "{} rectangle ({},{},{},{}) on a {}x{} parent",
        KIND_NAMES[kind as usize % 7],
        q.0,
        q.1,
        q.2,
        q.3,
        pw,
        ph
    ));
    let mut parent = tagged_parent(pw, ph);
    if let Err(e) = try_rect(kind, pw, ph, &mut parent, q) {
        o.fail(e);
        return o;
    }
    let ins = inside(pw, ph, q.0, q.1, q.2, q.3);
    o.label(format!("rect:{}", if ins { "inside" } else { "outside" }));
    let interior = ins && q.0 > 0 && q.1 > 0 && (q.0 + q.2) < pw && (q.1 + q.3) < ph;
    if !interior {
        o.nontrivial_key(fnv(format!("r|{}|{}|{}|{:?}", kind, pw, ph, q).as_bytes()));
    }
    o
}

// ------------------------------------------------------------------ (b) f64 crop boxes

fn gen_f64(t: &mut Tape, img: u32, is_size: bool) -> f64 {
    let n = img as f64;
    match t.below(20) {
        0 => {
            if is_size {
                n
            } else {
                0.0
            }
        }
        19 => 0.0,
        1 => -0.0,
        2 => f64::EPSILON,
        3 => -f64::EPSILON,
        4 => n,
        5 => crate::spec::next_down(n),
        6 => crate::spec::next_up(n),
        7 => f64::NAN,
        8 => f64::INFINITY,
        9 => f64::NEG_INFINITY,
        10 => 1e300,
        11 => -1e300,
        12 => f64::from_bits(1),
        13 => -f64::from_bits(t.range(1, 1000) as u64),
        14 => t.range(0, img.max(1)) as f64,
        15 => -(t.range(1, 100) as f64),
        16 => t.unit() * n,
        17 => t.unit() * n * 2.0 - n * 0.5,
        18 => n - t.unit() * 1e-9,
        _ => n * 0.5,
    }
}

fn check_f64_crop(t: &mut Tape) -> Outcome {
    let pt = t.pick(&[PixelType::U8, PixelType::U8x4, PixelType::U16x3, PixelType::F32]);
    let sw = 12 - t.range(0, 12);
    let sh = 9 - t.range(0, 9);
    let dw = 9 - t.range(0, 9);
    let dh = 7 - t.range(0, 7);
    let b = (gen_f64(t, sw, false), gen_f64(t, sh, false), gen_f64(t, sw, true), gen_f64(t, sh, true));
    let alg = match t.below(3) {
        0 => fr::ResizeAlg::Nearest,
        1 => fr::ResizeAlg::Convolution(fr::FilterType::Bilinear),
        _ => fr::ResizeAlg::SuperSampling(fr::FilterType::Box, 2),
    };
    // a box of exactly the destination's size takes the copy fast path
    let (mut dw, mut dh) = (dw, dh);
    if t.chance(70) {
        if b.2 == b.2.round() && b.2 >= 1.0 && b.2 <= 16.0 {
            dw = b.2 as u32;
        }
        if b.3 == b.3.round() && b.3 >= 1.0 && b.3 <= 16.0 {
            dh = b.3 as u32;
        }
    }
    f64_case(pt, sw, sh, dw, dh, b, alg)
}

fn f64_case(pt: PixelType, sw: u32, sh: u32, dw: u32, dh: u32, b: (f64, f64, f64, f64), alg: fr::ResizeAlg) -> Outcome {
    let (l, tp, w, h) = b;
    let mut o = Outcome::new(format!(
        "resize {} {}x{} -> {}x{} with crop({:?},{:?},{:?},{:?}) {:?}",
        img::pt_name(pt),
        sw,
        sh,
        dw,
        dh,
        l,
        tp,
        w,
        h,
        alg
    ));
    let src = Buf::new(sw as usize * sh as usize * pt.size());
    let mut dst = Buf::new(dw as usize * dh as usize * pt.size());
    let opts = fr::ResizeOptions::new().resize_alg(alg).crop(l, tp, w, h);
    let r = catch(|| {
        let mut rz = fr::Resizer::new();
        img::resize_bytes(&mut rz, pt, sw, sh, src.bytes(), dw, dh, dst.bytes_mut(), &opts)
    });
    let finite = l.is_finite() && tp.is_finite() && w.is_finite() && h.is_finite();
    let ins = finite && l >= 0.0 && tp >= 0.0 && w >= 0.0 && h >= 0.0 && l + w <= sw as f64 && tp + h <= sh as f64;
    // documented no-op: any size equal to zero => Ok without looking at the box
    let noop = w == 0.0 || h == 0.0 || dw == 0 || dh == 0;
    let far_edge = ins && (l == sw as f64 || tp == sh as f64);
    match r {
        Err(p) => {
            o.fail(format!("panic: {}", p));
            return o;
        }
        Ok(res) => {
            if !noop {
                match &res {
                    Ok(()) => {
                        if !ins {
                            o.fail("a crop box that is not a finite rectangle inside the source was accepted".to_string());
                            return o;
                        }
                    }
                    Err(e) => {
                        if ins && !far_edge {
                            o.fail(format!("a crop box inside the source was rejected: {}", e));
                            return o;
                        }
                        if !e.contains("SrcCroppingError") {
                            o.fail(format!("unexpected error kind: {}", e));
                            return o;
                        }
                        if finite && (w < 0.0 || h < 0.0) && l >= 0.0 && tp >= 0.0 && l < sw as f64 && tp < sh as f64 && !e.contains("WidthOrHeightLessThanZero") {
                            o.fail(format!("negative size must be reported as WidthOrHeightLessThanZero, got {}", e));
                            return o;
                        }
                    }
                }
            }
            o.label(format!(
                "f64crop:{}",
                if noop {
                    "noop"
                } else if res.is_ok() {
                    "accepted"
                } else {
                    "rejected"
                }
            ));
        }
    }
    o.nontrivial_key(fnv(
        format!("f|{}|{}|{}|{}|{}|{:?}", img::pt_name(pt), sw, sh, dw, dh, [l.to_bits(), tp.to_bits(), w.to_bits(), h.to_bits()]).as_bytes(),
    ));
    o
}

// ------------------------------------------------------------------ (c) buffers

const CTOR_NAMES: [&str; 9] = [
    "Image::from_vec_u8",
    "Image::from_slice_u8",
    "ImageRef::new",
    "ImageRef::from_pixels",
    "TypedImageRef::new",
    "TypedImageRef::from_buffer",
    "TypedImage::from_pixels",
    "TypedImage::from_pixels_slice",
    "TypedImage::from_buffer",
];

#[derive(Debug, PartialEq)]
enum CtorRes {
    Ok,
    Size,
    Align,
}

fn be(r: Result<(), ImageBufferError>) -> CtorRes {
    match r {
        Ok(()) => CtorRes::Ok,
        Err(ImageBufferError::InvalidBufferSize) => CtorRes::Size,
        Err(ImageBufferError::InvalidBufferAlignment) => CtorRes::Align,
    }
}

fn pixels_of<P>(bytes: &[u8]) -> &[P] {
    let (_, mid, _) = unsafe { bytes.align_to::<P>() };
    mid
}
fn pixels_of_mut<P>(bytes: &mut [u8]) -> &mut [P] {
    let (_, mid, _) = unsafe { bytes.align_to_mut::<P>() };
    mid
}

fn call_ctor(ctor: u8, pt: PixelType, w: u32, h: u32, buf: &mut [u8]) -> CtorRes {
    macro_rules! typed {
        ($p:ty) => {
            match ctor {
                3 => be(ImageRef::from_pixels::<$p>(w, h, pixels_of::<$p>(buf)).map(|_| ())),
                4 => match TypedImageRef::<$p>::new(w, h, pixels_of::<$p>(buf)) {
                    Ok(_) => CtorRes::Ok,
                    Err(_) => CtorRes::Size,
                },
                5 => be(TypedImageRef::<$p>::from_buffer(w, h, buf).map(|_| ())),
                6 => match TypedImage::<$p>::from_pixels(w, h, pixels_of::<$p>(buf).to_vec()) {
                    Ok(_) => CtorRes::Ok,
                    Err(_) => CtorRes::Size,
                },
                7 => match TypedImage::<$p>::from_pixels_slice(w, h, pixels_of_mut::<$p>(buf)) {
                    Ok(_) => CtorRes::Ok,
                    Err(_) => CtorRes::Size,
                },
                _ => be(TypedImage::<$p>::from_buffer(w, h, buf).map(|_| ())),
            }
        };
    }
    match ctor {
        0 => {
            // a Vec whose capacity exceeds its length: only the length counts
            let mut v = Vec::with_capacity(buf.len() + 4096);
            v.extend_from_slice(buf);
            be(Image::from_vec_u8(w, h, v, pt).map(|_| ()))
        }
        1 => be(Image::from_slice_u8(w, h, buf, pt).map(|_| ())),
        2 => be(ImageRef::new(w, h, buf, pt).map(|_| ())),
        _ => match pt {
            PixelType::U8 => typed!(U8),
            PixelType::U8x4 => typed!(U8x4),
            PixelType::U16x3 => typed!(U16x3),
            PixelType::F32 => typed!(F32),
            _ => typed!(I32),
        },
    }
}

fn check_buffer(t: &mut Tape) -> Outcome {
    let ctor = t.below(9) as u8;
    let pt = t.pick(&[PixelType::U8, PixelType::U8x4, PixelType::U16x3, PixelType::F32, PixelType::I32]);
    let ps = pt.size() as u128;
    let align: usize = match pt {
        PixelType::U8 | PixelType::U8x4 => 1,
        PixelType::U16x3 => 2,
        _ => 4,
    };
    let dim = |t: &mut Tape| -> u32 {
        match t.below(10) {
            0 => 0,
            1 => 1,
            2 => 1 << 16,
            3 => 1 << 31,
            4 => u32::MAX,
            5 => (1 << 16) + 1,
            6 => 1 << 30,
            _ => t.range(0, 24),
        }
    };
    let w = dim(t);
    let h = dim(t);
    let need = w as u128 * h as u128 * ps;
    let row = w as u128 * ps;
    const CAP: u128 = 1 << 16;
    let len: usize = match t.below(7) {
        0 => 0,
        1 => need.saturating_sub(1).min(CAP) as usize,
        2 => need.min(CAP) as usize,
        3 => (need + 1).min(CAP) as usize,
        4 => (need + row).min(CAP) as usize,
        5 => need.saturating_sub(ps).min(CAP) as usize,
        _ => t.range(0, 300) as usize,
    };
    let misalign = if t.chance(80) { t.range(1, 3) as usize } else { 0 };
    let mut o = Outcome::new(format!(
        "{} {} {}x{} over a buffer of {} bytes (required {}), pointer offset {} from 8-byte alignment",
        CTOR_NAMES[ctor as usize],
        img::pt_name(pt),
        w,
        h,
        len,
        need,
        misalign
    ));
    let mut buf = Buf::with_offset(len, misalign);
    // typed constructors that take pixel slices cannot be offered a misaligned slice; and the by-value Vec is re-allocated
    let takes_bytes = matches!(ctor, 1 | 2 | 5 | 8);
    // an empty buffer has no bytes whose alignment could matter
    let aligned = !takes_bytes || misalign % align == 0 || len == 0;
    let avail: u128 = if takes_bytes || ctor == 0 {
        len as u128
    } else {
        // pixel-slice constructors see whole pixels only
        (pixels_len(pt, buf.bytes()) as u128) * ps
    };
    let enough = avail >= need;
    let r = catch(|| call_ctor(ctor, pt, w, h, buf.bytes_mut()));
    match r {
        Err(p) => {
            o.fail(format!("panic: {}", p));
            return o;
        }
        Ok(res) => {
            let accept = enough && (aligned || ctor == 0);
            if ctor == 0 {
                // the Vec copy has its own (sufficient in practice) alignment; only the size is decided
                if enough && res == CtorRes::Size || !enough && res == CtorRes::Ok {
                    o.fail(format!("{:?} although the buffer is {}", res, if enough { "large enough" } else { "too small" }));
                    return o;
                }
            } else if accept && res != CtorRes::Ok {
                o.fail(format!("rejected with {:?} although the buffer is large enough and aligned", res));
                return o;
            } else if !accept && res == CtorRes::Ok {
                o.fail(format!(
                    "accepted although the buffer is {}",
                    if !enough { "smaller than width*height*pixel_size" } else { "misaligned" }
                ));
                return o;
            } else if !enough && aligned && res != CtorRes::Size {
                o.fail(format!("a short but aligned buffer must be reported as an invalid size, got {:?}", res));
                return o;
            } else if enough && !aligned && res != CtorRes::Align {
                o.fail(format!("a sufficient but misaligned buffer must be reported as invalid alignment, got {:?}", res));
                return o;
            }
            o.label(format!("ctor:{:?}", res));
        }
    }
    o.label(format!("ctor:{}", CTOR_NAMES[ctor as usize]));
    o.nontrivial_key(fnv(format!("b|{}|{}|{}|{}|{}|{}", ctor, img::pt_name(pt), w, h, len, misalign).as_bytes()));
    o
}

fn pixels_len(pt: PixelType, bytes: &[u8]) -> usize {
    match pt {
        PixelType::U8 => pixels_of::<U8>(bytes).len(),
        PixelType::U8x4 => pixels_of::<U8x4>(bytes).len(),
        PixelType::U16x3 => pixels_of::<U16x3>(bytes).len(),
        PixelType::F32 => pixels_of::<F32>(bytes).len(),
        _ => pixels_of::<I32>(bytes).len(),
    }
}

fn check(tape: &[u8], _ctx: &Ctx) -> Outcome {
    if tape.len() == 5 && tape[0] == 0xEE && tape[4] == 0xEE && tape[1] < 7 && tape[2] <= 4 && tape[3] <= 4 {
        return enumerate_rects(tape[1], tape[2] as u32, tape[3] as u32);
    }
    if tape.len() == 5 && tape[0] == 0xEE && tape[4] == 0xEE && tape[1] < 7 && (200..204).contains(&tape[2]) {
        let (pw, ph) = [(u32::MAX, 0), (0, u32::MAX), (u32::MAX - 1, 0), (0, u32::MAX - 1)][(tape[2] - 200) as usize];
        return enumerate_rects(tape[1], pw, ph);
    }
    if tape.len() == 26 && tape[0] == 0xED {
        let mut t = Tape::new(&tape[1..]);
        let kind = t.u8() % 7;
        let (pw, ph) = (t.u32().min(64), t.u32().min(64));
        let q = (t.u32(), t.u32(), t.u32(), t.u32());
        return rect_case(kind, pw, ph, q);
    }
    let mut t = Tape::new(tape);
    match t.weighted(&[100, 100, 56]) {
        0 => check_rect(&mut t),
        1 => check_f64_crop(&mut t),
        _ => check_buffer(&mut t),
    }
}
