//! C15 — fit-into-destination crop is in bounds, keeps aspect, honours centering.
use crate::img::{self, Content, Placement};
use crate::outcome::*;
use crate::tape::{Mix, Tape};
use fast_image_resize as fr;
use fr::PixelType;

pub static PROP: PropDef = PropDef {
    id: "C15",
    builds: opt_and_dbg,
    max_tape: 40,
    cases: |t| match t {
        Tier::Quick => 40_000,
        Tier::Thorough => 800_000,
    },
    fixed: no_fixed,
    check,
    rule: "each tape decodes one primary (src_w,src_h,dst_w,dst_h,centering) case from size classes \
           {tiny, random 1..65535, near 65535, near-equal aspect (k*W±d,k*H), (W/g,H/g±1), continued-fraction \
           convergents of W/H and their neighbours, exact multiples} x centering classes {0,0.5,1,random in [0,1], \
           outside [0,1], ±inf, ±1e300, tiny}, plus 255 derived cases (SplitMix64 of a tape-provided seed, same \
           classes); every case is evaluated against the four algebraic predicates and small ones are also resized. \
           Non-trivial = the source really is cropped in one dimension (aspects differ); distinct = the (W,H,w,h,cx,cy) tuple.",
    assumptions: &["NaN centering is outside the stated domain and never generated"],
    exhaustive: not_exhaustive,
};

#[derive(Clone, Copy, Debug)]
struct Case {
    sw: u32,
    sh: u32,
    dw: u32,
    dh: u32,
    cx: f64,
    cy: f64,
}

trait Src {
    fn below(&mut self, n: u32) -> u32;
    fn unit(&mut self) -> f64;
}
impl Src for Tape<'_> {
    fn below(&mut self, n: u32) -> u32 {
        self.range(0, n - 1)
    }
    fn unit(&mut self) -> f64 {
        Tape::unit(self)
    }
}
impl Src for Mix {
    fn below(&mut self, n: u32) -> u32 {
        Mix::below(self, n as u64) as u32
    }
    fn unit(&mut self) -> f64 {
        Mix::unit(self)
    }
}

const MAXS: u32 = 65535;

fn gen_center(s: &mut impl Src) -> f64 {
    match s.below(12) {
        0 => 0.0,
        1 => 0.5,
        2 => 1.0,
        3 | 4 | 5 => s.unit(),
        6 => -3.0 + 7.0 * s.unit(),
        7 => f64::INFINITY,
        8 => f64::NEG_INFINITY,
        9 => 1e300,
        10 => 1e-300,
        _ => 1.0 - f64::EPSILON,
    }
}

fn clamp_side(v: i64) -> u32 {
    v.clamp(1, MAXS as i64) as u32
}

fn gen_case(s: &mut impl Src) -> (Case, u8) {
    let class = s.below(9) as u8;
    let (sw, sh, dw, dh) = match class {
        8 => {
            // exactly equal aspect ratios with a rational (non-integer) scale: (a*p, a*q) -> (b*p, b*q)
            let p = 1 + s.below(40);
            let q = 1 + s.below(40);
            let lim = MAXS / p.max(q);
            let a = 1 + s.below(lim.min(2000));
            let b = 1 + s.below(lim.min(2000));
            (a * p, a * q, b * p, b * q)
        }
        0 => (1 + s.below(8), 1 + s.below(8), 1 + s.below(8), 1 + s.below(8)),
        1 => (1 + s.below(MAXS), 1 + s.below(MAXS), 1 + s.below(MAXS), 1 + s.below(MAXS)),
        2 => (MAXS - s.below(4), MAXS - s.below(4), MAXS - s.below(300), MAXS - s.below(300)),
        3 => {
            // dst = (k*W ± d, k*H)
            let k = 1 + s.below(16);
            let w = 1 + s.below(MAXS / k);
            let h = 1 + s.below(MAXS / k);
            let d = s.below(3) as i64 - 1;
            if s.below(2) == 0 {
                (w, h, clamp_side((k * w) as i64 + d), k * h)
            } else {
                (clamp_side((k * w) as i64 + d), k * h, w, h)
            }
        }
        4 => {
            // src = g*(w, h ± e)
            let g = 1 + s.below(64);
            let w = 1 + s.below(MAXS / g);
            let h = 1 + s.below(MAXS / g);
            let e = s.below(3) as i64 - 1;
            (g * w, clamp_side((g * h) as i64 + e), w, h)
        }
        5 => {
            // convergents of W/H
            let w = 1 + s.below(MAXS);
            let h = 1 + s.below(MAXS);
            let (mut a, mut b) = (w as u64, h as u64);
            let (mut p0, mut q0, mut p1, mut q1) = (0u64, 1u64, 1u64, 0u64);
            let depth = 1 + s.below(10);
            for _ in 0..depth {
                if b == 0 {
                    break;
                }
                let t = a / b;
                let (p2, q2) = (t * p1 + p0, t * q1 + q0);
                if p2 > MAXS as u64 || q2 > MAXS as u64 {
                    break;
                }
                p0 = p1;
                q0 = q1;
                p1 = p2;
                q1 = q2;
                let r = a % b;
                a = b;
                b = r;
            }
            let d = s.below(3) as i64 - 1;
            (w, h, clamp_side(p1 as i64 + d), clamp_side(q1 as i64))
        }
        6 => {
            // exact multiples: identical aspect
            let g = 1 + s.below(255);
            let w = 1 + s.below(MAXS / g);
            let h = 1 + s.below(MAXS / g);
            if s.below(2) == 0 {
                (g * w, g * h, w, h)
            } else {
                (w, h, g * w, g * h)
            }
        }
        _ => {
            // one extreme side
            let big = MAXS - s.below(2);
            match s.below(4) {
                0 => (big, 1 + s.below(3), 1 + s.below(MAXS), 1 + s.below(MAXS)),
                1 => (1 + s.below(3), big, 1 + s.below(MAXS), 1 + s.below(MAXS)),
                2 => (1 + s.below(MAXS), 1 + s.below(MAXS), big, 1 + s.below(3)),
                _ => (1 + s.below(MAXS), 1 + s.below(MAXS), 1 + s.below(3), big),
            }
        }
    };
    let cx = gen_center(s);
    let cy = gen_center(s);
    (
        Case {
            sw,
            sh,
            dw,
            dh,
            cx,
            cy,
        },
        class,
    )
}

const CLASS_NAMES: [&str; 9] = [
    "tiny", "random", "near-max", "k-multiple±1", "g-multiple±1", "convergent", "same-aspect", "extreme-side", "same-aspect-rational",
];

fn literal_tape(c: &Case) -> Vec<u8> {
    let mut t = vec![0xFFu8];
    for v in [c.sw, c.sh, c.dw, c.dh] {
        t.extend_from_slice(&(v as u16).to_be_bytes());
    }
    t.extend_from_slice(&c.cx.to_bits().to_be_bytes());
    t.extend_from_slice(&c.cy.to_bits().to_be_bytes());
    t
}

fn check_one(c: &Case, do_resize: bool) -> Result<bool, String> {
    let b = fr::CropBox::fit_src_into_dst_size(c.sw, c.sh, c.dw, c.dh, Some((c.cx, c.cy)));
    let (w, h) = (c.sw as f64, c.sh as f64);
    let (l, t, cw, ch) = (b.left, b.top, b.width, b.height);
    if !(l.is_finite() && t.is_finite() && cw.is_finite() && ch.is_finite()) {
        return Err(format!("non-finite crop box {:?}", b));
    }
    // in bounds, evaluated the way the validator evaluates it
    if l < 0.0 || t < 0.0 || cw < 0.0 || ch < 0.0 {
        return Err(format!("negative origin or size: {:?}", b));
    }
    if l >= w || t >= h {
        return Err(format!("origin outside the source: {:?}", b));
    }
    if l + cw > w || t + ch > h {
        return Err(format!("crop box exceeds the source: {:?} (right={:?} bottom={:?})", b, l + cw, t + ch));
    }
    if !(cw > 0.0 && ch > 0.0) {
        return Err(format!("empty crop box {:?}", b));
    }
    // aspect
    let want = c.dw as f64 / c.dh as f64;
    let got = cw / ch;
    if (got - want).abs() > 1e-12 * want {
        return Err(format!("aspect ratio {:?} differs from the destination's {:?}: {:?}", got, want, b));
    }
    // spans the full source in at least one dimension
    if cw != w && ch != h {
        return Err(format!("crop spans neither dimension fully: {:?}", b));
    }
    // centering
    let ccx = c.cx.clamp(0.0, 1.0);
    let ccy = c.cy.clamp(0.0, 1.0);
    if (l - (w - cw) * ccx).abs() > 1e-9 * w {
        return Err(format!("left {:?} is not margin*centering {:?}", l, (w - cw) * ccx));
    }
    if (t - (h - ch) * ccy).abs() > 1e-9 * h {
        return Err(format!("top {:?} is not margin*centering {:?}", t, (h - ch) * ccy));
    }
    if do_resize {
        let pt = PixelType::U8;
        let src = img::make_image(
            pt,
            c.sw,
            c.sh,
            Content {
                class: 1,
                seed: (c.sw as u64) << 32 | c.dh as u64,
            },
            Placement::Heap,
        );
        let mut r = img::new_resizer(fr::CpuExtensions::None);
        let alg = fr::ResizeAlg::Convolution(fr::FilterType::Bilinear);
        // the builder methods in every order, and the public field set directly
        let o1 = match (c.sw + c.dh) % 4 {
            0 => fr::ResizeOptions::new().resize_alg(alg).fit_into_destination(Some((c.cx, c.cy))),
            1 => fr::ResizeOptions::new().fit_into_destination(Some((c.cx, c.cy))).resize_alg(alg),
            2 => fr::ResizeOptions::new().fit_into_destination(Some((c.cx, c.cy))).use_alpha(true).resize_alg(alg),
            _ => {
                let mut o = fr::ResizeOptions::new().resize_alg(alg);
                o.cropping = fr::SrcCropping::FitIntoDestination((c.cx, c.cy));
                o
            }
        };
        let o2 = fr::ResizeOptions::new().resize_alg(alg).crop(l, t, cw, ch);
        let n = (c.dw * c.dh) as usize;
        let mut d1 = img::Buf::new(n);
        let mut d2 = img::Buf::new(n);
        d1.fill(0xA5);
        d2.fill(0x5A);
        img::resize_bytes(&mut r, pt, c.sw, c.sh, src.bytes(), c.dw, c.dh, d1.bytes_mut(), &o1)
            .map_err(|e| format!("resize with fit_into_destination failed: {}", e))?;
        img::resize_bytes(&mut r, pt, c.sw, c.sh, src.bytes(), c.dw, c.dh, d2.bytes_mut(), &o2)
            .map_err(|e| format!("resize with the explicit crop {:?} failed: {}", b, e))?;
        if d1.bytes() != d2.bytes() {
            return Err("fit_into_destination result differs from the explicit crop result".to_string());
        }
    }
    Ok(cw != w || ch != h)
}

fn key(c: &Case) -> u64 {
    crate::tape::fnv(&literal_tape(c))
}

fn desc(c: &Case) -> String {
    format!(
        "src {}x{} dst {}x{} centering ({:?},{:?})",
        c.sw, c.sh, c.dw, c.dh, c.cx, c.cy
    )
}

fn check(tape: &[u8], _ctx: &Ctx) -> Outcome {
    let mut t = Tape::new(tape);
    if tape.first() == Some(&0xFF) && tape.len() >= 25 {
        t.u8();
        let c = Case {
            sw: (t.u16() as u32).max(1),
            sh: (t.u16() as u32).max(1),
            dw: (t.u16() as u32).max(1),
            dh: (t.u16() as u32).max(1),
            cx: f64::from_bits(t.u64()),
            cy: f64::from_bits(t.u64()),
        };
        let mut o = Outcome::new(desc(&c));
        if c.cx.is_nan() || c.cy.is_nan() {
            o.label("skipped:nan");
            return o;
        }
        let small = c.sw as u64 * c.sh as u64 <= 4096 && c.dw as u64 * c.dh as u64 <= 4096;
        match check_one(&c, small) {
            Ok(nt) => {
                if nt {
                    o.nontrivial_key(key(&c));
                }
            }
            Err(e) => o.fail(e),
        }
        return o;
    }
    let (primary, class) = gen_case(&mut t);
    let seed = t.u32() as u64;
    let mut o = Outcome::new(desc(&primary));
    o.evals = 0;
    let mut rng = Mix::new(seed);
    for i in 0..256 {
        let (c, cls) = if i == 0 {
            (primary, class)
        } else {
            gen_case(&mut rng)
        };
        o.evals += 1;
        o.label(format!("class:{}", CLASS_NAMES[cls as usize]));
        let small = c.sw as u64 * c.sh as u64 <= 1024 && c.dw as u64 * c.dh as u64 <= 1024;
        if small {
            o.label("resized");
        }
        match check_one(&c, small) {
            Ok(nt) => {
                if nt {
                    o.nontrivial_key(key(&c));
                    o.label("cropped");
                } else {
                    o.label("not-cropped");
                }
            }
            Err(e) => {
                o.fail(format!("{}: {}", desc(&c), e));
                if i != 0 {
                    o.repro = Some(literal_tape(&c));
                }
                return o;
            }
        }
    }
    o
}
