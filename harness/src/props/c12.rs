//! C12 — resizing to the same size is an exact copy.
use crate::exec;
use crate::img::{self, Comp, Placement};
use crate::model;
use crate::outcome::*;
use crate::spec::{AlgSpec, CropSpec, FilterSpec, Profile, ResizeSpec};
use crate::tape::{fnv, Tape};

pub static PROP: PropDef = PropDef {
    id: "C12",
    builds: opt_only,
    max_tape: 64,
    cases: |t| match t {
        Tier::Quick => 400_000,
        Tier::Thorough => 6_000_000,
    },
    fixed: no_fixed,
    check,
    rule: "tape -> (a) same-size case: destination size == size of an integer crop box (or the whole source), every algorithm incl. Nearest and SuperSampling, \
           13 pixel types, alpha on/off with arbitrary (not premultiplied-safe) contents, 1-pixel / 1-row images; oracle: destination bytes == the cropped region; \
           (b) SuperSampling whose nearest-neighbour intermediate image has exactly the destination size: destination == that intermediate image (every pixel written); \
           (c) exactly one dimension equal: perturbing one source column (row) along the untouched axis changes only that destination column (row), and the result \
           equals the single-pass reference model with the identity on that axis. Non-trivial: for (a) an algorithm other than a plain copy was requested on >1 pixel; \
           distinct = (mode, type, sizes, crop, algorithm, alpha flag).",
    assumptions: &["mode (c) runs with alpha handling off so that the 1-D reference model applies"],
    exhaustive: not_exhaustive,
};

fn profile() -> Profile {
    let mut p = Profile::standard();
    p.allow_nearest = true;
    p.size_weights = [40, 100, 90, 20, 6];
    p
}

fn region(pt: fast_image_resize::PixelType, src: &[u8], sw: u32, l: u32, t: u32, w: u32, h: u32) -> Vec<u8> {
    let ps = pt.size();
    let mut out = Vec::with_capacity((w * h) as usize * ps);
    for y in 0..h {
        let off = ((t + y) as usize * sw as usize + l as usize) * ps;
        out.extend_from_slice(&src[off..off + w as usize * ps]);
    }
    out
}

fn check(tape: &[u8], _ctx: &Ctx) -> Outcome {
    let mut t = Tape::new(tape);
    let mode = t.weighted(&[60, 20, 20]);
    let mut spec = ResizeSpec::decode(&mut t, &profile());
    match mode {
        0 => same_size(&mut t, &mut spec),
        1 => supersampling_same(&mut t, &mut spec),
        _ => one_dimension(&mut t, &mut spec),
    }
}

fn same_size(t: &mut Tape, spec: &mut ResizeSpec) -> Outcome {
    // integer crop, destination of exactly that size
    let (l, tp, w, h) = if t.bool() {
        (0, 0, spec.sw, spec.sh)
    } else {
        let l = t.range(0, spec.sw - 1);
        let tp = t.range(0, spec.sh - 1);
        (l, tp, t.range(1, spec.sw - l), t.range(1, spec.sh - tp))
    };
    let whole = (l, tp, w, h) == (0, 0, spec.sw, spec.sh);
    spec.crop = match t.below(4) {
        0 if whole => CropSpec::None,
        // the same aspect ratio (here: the same size) must make fit_into_destination take the whole source
        1 if whole => CropSpec::Fit([0.0, 0.5, 1.0, 0.3][t.below(4) as usize], [0.5, 0.0, 1.0, 0.7][t.below(4) as usize]),
        k => {
            // an origin of 0 may be spelled -0.0
            let z = |v: u32, neg: bool| if v == 0 && neg { -0.0f64 } else { v as f64 };
            CropSpec::Box {
                l: z(l, k == 2),
                t: z(tp, k == 2 || k == 3),
                w: w as f64,
                h: h as f64,
            }
        }
    };
    spec.dw = w;
    spec.dh = h;
    let guard = t.chance(64);
    let mut o = Outcome::new(format!("same-size: {}", spec.desc()));
    let src = exec::src_image(spec, if guard { Placement::GuardEnd } else { Placement::Heap });
    let run = match exec::run_resize(spec, src.bytes(), 0xA5, if guard { Placement::GuardEnd } else { Placement::Heap }) {
        Ok(r) => r,
        Err(p) => {
            o.fail(format!("panic: {}", p));
            return o;
        }
    };
    if let Err(e) = &run.result {
        o.fail(format!("resize returned an error: {}", e));
        return o;
    }
    let want = region(spec.pt, src.bytes(), spec.sw, l, tp, w, h);
    if let Some(i) = img::bytes_diff(&want, run.dst.bytes()) {
        let ps = spec.pt.size();
        let px = i / ps;
        o.fail(format!(
            "destination is not a bit-exact copy of the crop region: first difference at pixel (x={}, y={}), byte {} of the pixel: {:#04x} vs source {:#04x}",
            px % w as usize,
            px / w as usize,
            i % ps,
            run.dst.bytes()[i],
            want[i]
        ));
        return o;
    }
    o.label("mode:same-size");
    o.label(format!("alg:{}", spec.alg.kind()));
    o.label(format!("type:{}", img::pt_name(spec.pt)));
    if spec.use_alpha && img::has_alpha(spec.pt) {
        o.label("alpha-on");
    }
    if (w as u64) * (h as u64) > 1 {
        o.nontrivial_key(fnv(
            format!(
                "s|{}|{}|{}|{}|{}|{}|{}|{}|{}",
                img::pt_name(spec.pt),
                spec.sw,
                spec.sh,
                l,
                tp,
                w,
                h,
                spec.alg.name(),
                spec.use_alpha
            )
            .as_bytes(),
        ));
    }
    o
}

fn supersampling_same(t: &mut Tape, spec: &mut ResizeSpec) -> Outcome {
    // SuperSampling with multiplicity m on an exact k-fold downscale (k >= 2m would give an
    // intermediate m times the destination; m = 1 gives exactly the destination size)
    let f = match spec.alg.filter() {
        Some(FilterSpec::Builtin(i)) => i,
        _ => t.below(7) as u8,
    };
    let k = t.range(2, 6);
    spec.dw = spec.dw.min(60).max(1);
    spec.dh = spec.dh.min(60).max(1);
    spec.sw = spec.dw * k;
    spec.sh = spec.dh * k;
    spec.crop = CropSpec::None;
    spec.alg = AlgSpec::Super(FilterSpec::Builtin(f), 1);
    let mut o = Outcome::new(format!("supersampling-intermediate==destination: {}", spec.desc()));
    let src = exec::src_image(spec, Placement::Heap);
    let run = match exec::run_resize(spec, src.bytes(), 0xA5, Placement::Heap) {
        Ok(r) => r,
        Err(p) => {
            o.fail(format!("panic: {}", p));
            return o;
        }
    };
    if let Err(e) = &run.result {
        o.fail(format!("resize returned an error: {}", e));
        return o;
    }
    // the documented intermediate image: nearest neighbour to round(crop/factor) = destination size
    let mut ns = spec.clone();
    ns.alg = AlgSpec::Nearest;
    let want = match exec::run_resize(&ns, src.bytes(), 0x5A, Placement::Heap) {
        Ok(r) => r,
        Err(p) => {
            o.fail(format!("panic in Nearest: {}", p));
            return o;
        }
    };
    let mut want = want;
    if spec.use_alpha && img::has_alpha(spec.pt) {
        // alpha-aware convolution of the intermediate image with two identity passes:
        // premultiply, (nothing), divide - hidden colours must not survive (C07)
        let (pt, dw, dh, ext) = (spec.pt, spec.dw, spec.dh, spec.ext);
        let r = crate::runner::catch(|| {
            let md = img::new_muldiv(ext);
            let mut d = fast_image_resize::images::Image::from_slice_u8(dw, dh, want.dst.bytes_mut(), pt).unwrap();
            md.multiply_alpha_inplace(&mut d).unwrap();
            md.divide_alpha_inplace(&mut d).unwrap();
        });
        if let Err(p) = r {
            o.fail(format!("panic in multiply/divide: {}", p));
            return o;
        }
        o.label("supersampling-same:alpha-roundtrip");
    }
    if let Some(i) = img::bytes_diff(want.dst.bytes(), run.dst.bytes()) {
        let ps = spec.pt.size();
        let px = i / ps;
        o.fail(format!(
            "SuperSampling(m=1) with an intermediate image of the destination size is not that intermediate image: first difference at pixel (x={}, y={}): byte {:#04x} vs {:#04x}",
            px % spec.dw as usize,
            px / spec.dw as usize,
            run.dst.bytes()[i],
            want.dst.bytes()[i]
        ));
        return o;
    }
    o.label("mode:supersampling-same");
    o.label(format!("type:{}", img::pt_name(spec.pt)));
    o.nontrivial_key(fnv(
        format!("ss|{}|{}|{}|{}|{}|{}", img::pt_name(spec.pt), spec.dw, spec.dh, k, f, spec.use_alpha).as_bytes(),
    ));
    o
}

fn one_dimension(t: &mut Tape, spec: &mut ResizeSpec) -> Outcome {
    // keep exactly one dimension: width equal (vertical resampling only) or height equal
    let keep_w = t.bool();
    spec.use_alpha = false;
    if matches!(spec.alg, AlgSpec::Nearest) {
        spec.alg = AlgSpec::Conv(FilterSpec::Builtin(t.below(7) as u8));
    }
    let (l, tp, w, h);
    if keep_w {
        l = t.range(0, spec.sw - 1);
        w = t.range(1, spec.sw - l);
        tp = 0;
        h = spec.sh;
        spec.dw = w;
        if spec.dh == h {
            spec.dh = h + 1;
        }
    } else {
        tp = t.range(0, spec.sh - 1);
        h = t.range(1, spec.sh - tp);
        l = 0;
        w = spec.sw;
        spec.dh = h;
        if spec.dw == w {
            spec.dw = w + 1;
        }
    }
    spec.crop = CropSpec::Box {
        l: l as f64,
        t: tp as f64,
        w: w as f64,
        h: h as f64,
    };
    let mut o = Outcome::new(format!("one-dimension-equal ({}): {}", if keep_w { "width" } else { "height" }, spec.desc()));
    let src = exec::src_image(spec, Placement::Heap);
    let run = match exec::run_resize(spec, src.bytes(), 0xA5, Placement::Heap) {
        Ok(r) => r,
        Err(p) => {
            o.fail(format!("panic: {}", p));
            return o;
        }
    };
    if let Err(e) = &run.result {
        o.fail(format!("resize returned an error: {}", e));
        return o;
    }
    // (1) reference model with the identity on the kept axis (single pass: within half a unit)
    match super::c01::run_model(spec, src.bytes()) {
        Ok((res, _)) => {
            let dstv = img::comps_f64(spec.pt, run.dst.bytes());
            if let Some((i, v, lo, hi)) = model::judge(&res, &dstv) {
                let nch = img::channels(spec.pt);
                let px = i / nch;
                o.fail(format!(
                    "sample (x={}, y={}, channel={}) = {:?} outside [{:?}, {:?}] of the single-pass reference (no resampling along the equal dimension)",
                    px % spec.dw as usize,
                    px / spec.dw as usize,
                    i % nch,
                    v,
                    lo,
                    hi
                ));
                return o;
            }
            o.label(format!("passes:{}", res.passes));
        }
        Err(s) => o.label(format!("model-skipped:{:?}", s)),
    }
    // (2) independence: perturb one source column (row) inside the crop
    let c = img::comp(spec.pt);
    let nch = img::channels(spec.pt);
    let j = if keep_w { t.range(0, w - 1) } else { t.range(0, h - 1) };
    let mut src2 = img::Buf::from_bytes(src.bytes());
    {
        let b = src2.bytes_mut();
        let flip = |b: &mut [u8], px: usize| {
            for ch in 0..nch {
                let idx = px * nch + ch;
                let v = img::get_comp(c, b, idx);
                let nv = match c {
                    Comp::U8 => 255.0 - v,
                    Comp::U16 => 65535.0 - v,
                    Comp::I32 => -(v + 1.0),
                    Comp::F32 => 1.0 - v,
                };
                img::set_comp(c, b, idx, nv);
            }
        };
        if keep_w {
            for y in 0..spec.sh as usize {
                flip(b, y * spec.sw as usize + (l + j) as usize);
            }
        } else {
            for x in 0..spec.sw as usize {
                flip(b, (tp + j) as usize * spec.sw as usize + x);
            }
        }
    }
    let run2 = match exec::run_resize(spec, src2.bytes(), 0xA5, Placement::Heap) {
        Ok(r) => r,
        Err(p) => {
            o.fail(format!("panic on the perturbed image: {}", p));
            return o;
        }
    };
    let ps = spec.pt.size();
    let (a, b) = (run.dst.bytes(), run2.dst.bytes());
    for y in 0..spec.dh as usize {
        for x in 0..spec.dw as usize {
            let off = (y * spec.dw as usize + x) * ps;
            let same = a[off..off + ps] == b[off..off + ps];
            let on_line = if keep_w { x == j as usize } else { y == j as usize };
            if !on_line && !same {
                o.fail(format!(
                    "changing source {} {} changed destination pixel (x={}, y={}) although no resampling may happen along the equal dimension",
                    if keep_w { "column" } else { "row" },
                    j,
                    x,
                    y
                ));
                return o;
            }
        }
    }
    o.label("mode:one-dimension");
    o.label(format!("alg:{}", spec.alg.kind()));
    o.nontrivial_key(fnv(
        format!(
            "1d|{}|{}|{}|{}|{}|{}|{}|{}|{}",
            keep_w,
            img::pt_name(spec.pt),
            spec.sw,
            spec.sh,
            spec.dw,
            spec.dh,
            l,
            tp,
            spec.alg.name()
        )
        .as_bytes(),
    ));
    o
}
