//! C16 — colour-space mappers are monotone, fix the endpoints and keep alpha.
use crate::exec;
use crate::img::{self, Buf, Comp, Content, Placement};
use crate::outcome::*;
use crate::runner::catch;
use crate::tape::{fnv, Tape};
use fast_image_resize as fr;
use fr::images::{Image, ImageRef};
use fr::PixelType;

pub static PROP: PropDef = PropDef {
    id: "C16",
    builds: opt_only,
    max_tape: 40,
    cases: |t| match t {
        Tier::Quick => 100_000,
        Tier::Thorough => 2_000_000,
    },
    fixed,
    check,
    rule: "enumeration (fixed tapes): ramp images of all 256 / 65,536 component values through forward_map and backward_map of the sRGB and gamma-2.2 mappers for the depth pairs 8->8, 8->16, 16->8, 16->16 \
           (1- and 3-channel types): |entry - f(v/max)*max_out| <= 0.5 + 0.03 with f evaluated in f64, monotone non-decreasing, 0 -> 0, max -> max, and sRGB 8 -> 16 -> 8 reproduces all 256 values. \
           Generated tapes: images of U8..U8x4 / U16..U16x4, widths 1..9 so that the alpha component occupies every position of a row, two-image and in-place, both mappers and directions: colour \
           components equal the table entries, alpha components equal the plain depth conversion (identity in place), mismatched sizes / channel counts / unsupported types are rejected and leave the \
           destination untouched. Every table entry and every generated image is one distinct non-trivial case.",
    assumptions: &["the tables are built in f32; the tolerance 0.03 above half a unit covers that"],
    exhaustive: |_| true,
};

fn fixed(_t: Tier) -> Vec<Vec<u8>> {
    let mut v = Vec::new();
    for mapper in 0..2u8 {
        for forward in 0..2u8 {
            for sd in 0..2u8 {
                for dd in 0..2u8 {
                    for nch in [1u8, 3] {
                        v.push(vec![0xEE, mapper, forward, sd, dd, nch, 0xEE]);
                    }
                }
            }
        }
    }
    v.push(vec![0xEE, 9, 0, 0, 0, 1, 0xEE]); // sRGB round trip 8 -> 16 -> 8
    v
}

fn transfer(srgb: bool, forward: bool, x: f64) -> f64 {
    match (srgb, forward) {
        (true, true) => {
            if x < 0.04045 {
                x / 12.92
            } else {
                ((x + 0.055) / 1.055).powf(2.4)
            }
        }
        (true, false) => {
            if x < 0.0031308 {
                12.92 * x
            } else {
                1.055 * x.powf(1.0 / 2.4) - 0.055
            }
        }
        (false, true) => x.powf(2.2),
        (false, false) => x.powf(1.0 / 2.2),
    }
}

fn map_call(
    srgb: bool,
    forward: bool,
    inplace: bool,
    spt: PixelType,
    dpt: PixelType,
    w: u32,
    h: u32,
    src: &[u8],
    dst: &mut [u8],
    dw: u32,
    dh: u32,
) -> Result<Result<(), String>, String> {
    catch(|| {
        let m = if srgb { exec::srgb_mapper() } else { exec::gamma22_mapper() };
        let mut d = Image::from_slice_u8(dw, dh, dst, dpt).map_err(|e| format!("{:?}", e))?;
        if inplace {
            if forward {
                m.forward_map_inplace(&mut d).map_err(|e| format!("{:?}", e))
            } else {
                m.backward_map_inplace(&mut d).map_err(|e| format!("{:?}", e))
            }
        } else {
            let s = ImageRef::new(w, h, src, spt).map_err(|e| format!("{:?}", e))?;
            if forward {
                m.forward_map(&s, &mut d).map_err(|e| format!("{:?}", e))
            } else {
                m.backward_map(&s, &mut d).map_err(|e| format!("{:?}", e))
            }
        }
    })
}

/// Reads the whole table of (mapper, direction, source depth, destination depth) through a ramp image.
fn read_table(srgb: bool, forward: bool, sc: Comp, dc: Comp, nch: usize) -> Result<Vec<f64>, String> {
    let n = if sc == Comp::U8 { 256usize } else { 65536 };
    let spt = img::pt_of(sc, nch).unwrap();
    let dpt = img::pt_of(dc, nch).unwrap();
    let w = 256u32;
    let h = (n as u32) / w;
    let mut src = Buf::new(n * spt.size());
    for i in 0..n {
        for ch in 0..nch {
            img::set_comp(sc, src.bytes_mut(), i * nch + ch, ((i + ch * 11) % n) as f64);
        }
    }
    let mut dst = Buf::new(n * dpt.size());
    dst.fill(0x5A);
    match map_call(srgb, forward, false, spt, dpt, w, h, src.bytes(), dst.bytes_mut(), w, h) {
        Err(p) => return Err(format!("panic: {}", p)),
        Ok(Err(e)) => return Err(format!("returned {}", e)),
        Ok(Ok(())) => {}
    }
    let mut table = vec![f64::NAN; n];
    for i in 0..n {
        for ch in 0..nch {
            let k = (i + ch * 11) % n;
            let got = img::get_comp(dc, dst.bytes(), i * nch + ch);
            if !table[k].is_nan() && table[k] != got {
                return Err(format!("value {} maps to {} and to {} in different positions", k, table[k], got));
            }
            table[k] = got;
        }
    }
    Ok(table)
}

fn enumerate(tape: &[u8]) -> Outcome {
    let (mapper, forward, sd, dd, nch) = (tape[1], tape[2] % 2 == 1, tape[3] % 2, tape[4] % 2, if tape[5] == 3 { 3usize } else { 1 });
    if mapper == 9 {
        let mut o = Outcome::new("sRGB 8 -> 16 (forward) -> 8 (backward) round trip of all 256 values".to_string());
        o.evals = 0;
        for nch in [1usize, 3] {
            let fwd = match read_table(true, true, Comp::U8, Comp::U16, nch) {
                Ok(t) => t,
                Err(e) => {
                    o.fail(e);
                    return o;
                }
            };
            let bwd = match read_table(true, false, Comp::U16, Comp::U8, nch) {
                Ok(t) => t,
                Err(e) => {
                    o.fail(e);
                    return o;
                }
            };
            let mut lost_gamma = 0;
            for v in 0..256usize {
                o.evals += 1;
                let back = bwd[fwd[v] as usize];
                if back != v as f64 {
                    o.fail(format!("sRGB value {} -> linear16 {} -> sRGB {}", v, fwd[v], back));
                    return o;
                }
            }
            // statistic only: the pure 2.2 gamma is not required to round-trip
            if let (Ok(gf), Ok(gb)) = (read_table(false, true, Comp::U8, Comp::U16, nch), read_table(false, false, Comp::U16, Comp::U8, nch)) {
                for v in 0..256usize {
                    if gb[gf[v] as usize] != v as f64 {
                        lost_gamma += 1;
                    }
                }
            }
            o.label_n("statistic:gamma22-values-not-round-tripping", lost_gamma);
        }
        o.bulk_nontrivial = o.evals;
        return o;
    }
    let srgb = mapper % 2 == 0;
    let sc = if sd == 0 { Comp::U8 } else { Comp::U16 };
    let dc = if dd == 0 { Comp::U8 } else { Comp::U16 };
    let mut o = Outcome::new(format!(
        "{} {} table {:?} -> {:?} ({} channel{}), all {} entries",
        if srgb { "sRGB" } else { "gamma 2.2" },
        if forward { "forward" } else { "backward" },
        sc,
        dc,
        nch,
        if nch > 1 { "s" } else { "" },
        if sc == Comp::U8 { 256 } else { 65536 }
    ));
    o.evals = 0;
    let table = match read_table(srgb, forward, sc, dc, nch) {
        Ok(t) => t,
        Err(e) => {
            o.fail(e);
            return o;
        }
    };
    let n = table.len();
    let smax = (n - 1) as f64;
    let dmax = dc.vmax();
    let mut worst: f64 = 0.0;
    for v in 0..n {
        o.evals += 1;
        let ideal = transfer(srgb, forward, v as f64 / smax) * dmax;
        let err = (table[v] - ideal).abs();
        worst = worst.max(err);
        if err > 0.5 + 0.03 {
            o.fail(format!(
                "entry {} is {} but the transfer function gives {:.4} (error {:.4} > 0.53)",
                v, table[v], ideal, err
            ));
            return o;
        }
        if v > 0 && table[v] < table[v - 1] {
            o.fail(format!("not monotone: entry {} = {} < entry {} = {}", v, table[v], v - 1, table[v - 1]));
            return o;
        }
    }
    if table[0] != 0.0 {
        o.fail(format!("0 maps to {}", table[0]));
    }
    if table[n - 1] != dmax {
        o.fail(format!("max maps to {} instead of {}", table[n - 1], dmax));
    }
    o.bulk_nontrivial = o.evals;
    o.label(format!("table-worst-error<= {:.2}", (worst * 100.0).ceil() / 100.0));
    o
}

const MAP_PTS: [PixelType; 8] = [
    PixelType::U8,
    PixelType::U8x2,
    PixelType::U8x3,
    PixelType::U8x4,
    PixelType::U16,
    PixelType::U16x2,
    PixelType::U16x3,
    PixelType::U16x4,
];

fn depth_convert(sc: Comp, dc: Comp, v: f64) -> f64 {
    match (sc, dc) {
        (Comp::U8, Comp::U16) => v * 257.0,
        (Comp::U16, Comp::U8) => (v as u32 >> 8) as f64,
        _ => v,
    }
}

fn check_image(t: &mut Tape) -> Outcome {
    let srgb = t.bool();
    let forward = t.bool();
    let inplace = t.bool();
    let spt = t.pick(&img::PT13);
    let nch = img::channels(spt);
    let mut dpt = if inplace || t.bool() {
        spt
    } else {
        match img::comp(spt) {
            Comp::U8 => img::pt_of(Comp::U16, nch).unwrap(),
            Comp::U16 => img::pt_of(Comp::U8, nch).unwrap(),
            _ => spt,
        }
    };
    let w = match t.below(8) {
        0 => 0,
        1 => t.range(10, 70),
        2 => t.range(100, 300),
        _ => t.range(1, 9),
    };
    let h = if t.chance(20) { 0 } else { t.range(1, 6) };
    let mismatch = 9 - t.below(10);
    let (mut dw, mut dh) = (w, h);
    if !inplace {
        match mismatch {
            0 => dw = w + 1,
            1 => dh = h + 1,
            2 => dpt = img::pt_of(img::comp(dpt), nch % 4 + 1).unwrap_or(PixelType::U8x2),
            3 => dpt = PixelType::F32,
            _ => {}
        }
    }
    let content = Content {
        class: t.pick(&[1u8, 2, 8]),
        seed: t.u32() as u64,
    };
    let mut o = Outcome::new(format!(
        "{} {}_map{} {} {}x{} -> {} {}x{} content {}#{:x}",
        if srgb { "sRGB" } else { "gamma22" },
        if forward { "forward" } else { "backward" },
        if inplace { "_inplace" } else { "" },
        img::pt_name(spt),
        w,
        h,
        img::pt_name(dpt),
        dw,
        dh,
        content.name(),
        content.seed
    ));
    let src = img::make_image(spt, w, h, content, Placement::Heap);
    let mut dst = Buf::new(dw as usize * dh as usize * dpt.size());
    if inplace {
        dst.bytes_mut().copy_from_slice(src.bytes());
    } else {
        dst.fill(0x5A);
    }
    let before = dst.bytes().to_vec();
    let supported_types = MAP_PTS.contains(&spt) && MAP_PTS.contains(&dpt) && img::channels(dpt) == nch;
    let should_ok = supported_types && (dw, dh) == (w, h);
    let res = match map_call(srgb, forward, inplace, spt, dpt, w, h, src.bytes(), dst.bytes_mut(), dw, dh) {
        Err(p) => {
            o.fail(format!("panic: {}", p));
            return o;
        }
        Ok(r) => r,
    };
    match (&res, should_ok) {
        (Ok(()), false) => {
            o.fail("a call with mismatched sizes / component counts / unsupported pixel types was accepted".to_string());
            return o;
        }
        (Err(e), true) => {
            o.fail(format!("a supported mapping was rejected: {}", e));
            return o;
        }
        (Err(_), false) => {
            if dst.bytes() != &before[..] {
                o.fail("destination modified although the call was rejected".to_string());
            }
            o.label("image:rejected");
        }
        (Ok(()), true) => {
            let (sc, dc) = (img::comp(spt), img::comp(dpt));
            let table = match read_table(srgb, forward, sc, dc, 1) {
                Ok(t) => t,
                Err(e) => {
                    o.fail(format!("reading the table: {}", e));
                    return o;
                }
            };
            let has_alpha = nch == 2 || nch == 4;
            for i in 0..(w * h) as usize {
                for ch in 0..nch {
                    let s = img::get_comp(sc, src.bytes(), i * nch + ch);
                    let got = img::get_comp(dc, dst.bytes(), i * nch + ch);
                    let want = if has_alpha && ch == nch - 1 { depth_convert(sc, dc, s) } else { table[s as usize] };
                    if got != want {
                        o.fail(format!(
                            "pixel (x={}, y={}) channel {} ({}): {} -> {} but expected {}",
                            i % w as usize,
                            i / w as usize,
                            ch,
                            if has_alpha && ch == nch - 1 { "alpha: depth conversion only" } else { "colour: table entry" },
                            s,
                            got,
                            want
                        ));
                        return o;
                    }
                }
            }
            o.label(format!("image:ok:{}", if has_alpha { "alpha" } else { "no-alpha" }));
            o.label(format!("width:{}", w));
        }
    }
    o.nontrivial_key(fnv(o.desc.as_bytes()));
    o
}

fn check(tape: &[u8], _ctx: &Ctx) -> Outcome {
    if tape.len() == 7 && tape[0] == 0xEE && tape[6] == 0xEE {
        return enumerate(tape);
    }
    let mut t = Tape::new(tape);
    check_image(&mut t)
}
