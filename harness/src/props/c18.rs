//! C18 — non-negative filters never overshoot and preserve the order of inputs.
use crate::exec;
use crate::img::{self, Comp, Placement};
use crate::outcome::*;
use crate::runner::catch;
use crate::spec::{crop_class_name, FilterSpec, Profile, ResizeSpec, BUILTIN_NAMES};
use crate::tape::{fnv, Mix, Tape};
use fast_image_resize as fr;

pub static PROP: PropDef = PropDef {
    id: "C18",
    builds: opt_only,
    max_tape: 72,
    cases: |t| match t {
        Tier::Quick => 300_000,
        Tier::Thorough => 4_000_000,
    },
    fixed: no_fixed,
    check,
    rule: "tape -> (a) one image whose components are confined to a random band [a,b] anywhere in the range (touching 0, max, negative I32), resized with \
           Box/Bilinear/Hamming/Gaussian x {Convolution, Interpolation, SuperSampling} on every back-end, alpha handling off: every destination component must \
           lie in [min, max] of the source components of its channel; (b) an ordered pair A <= B (B = A + non-negative noise, or A with single pixels raised): \
           out(A) <= out(B) component-wise; integers exactly, floats up to 1 ulp; (c) white-box through the hook: all quantised coefficients of these filters \
           are >= 0. Non-trivial = a resampling pass ran (not a copy); distinct = (mode, type, sizes, crop classes, algorithm, band).",
    assumptions: &["float contents are finite"],
    exhaustive: not_exhaustive,
};

const NONNEG: [u8; 4] = [0, 1, 2, 5];

fn profile(tier: Tier) -> Profile {
    let mut p = Profile::standard();
    p.filters = NONNEG.to_vec();
    p.alpha_chance = 0;
    p.size_weights = [16, 80, 100, 40, 20];
    p.long_max = if tier == Tier::Thorough { 8192 } else { 2048 };
    p
}

fn ulp_at(v: f64) -> f64 {
    let f = v as f32;
    let b = f.abs().to_bits();
    (f32::from_bits(b.wrapping_add(1)) - f32::from_bits(b)).abs() as f64
}

fn range_of(c: Comp) -> (f64, f64) {
    match c {
        Comp::U8 => (0.0, 255.0),
        Comp::U16 => (0.0, 65535.0),
        Comp::I32 => (i32::MIN as f64, i32::MAX as f64),
        Comp::F32 => (-1e30, 1e30),
    }
}

fn draw_band(t: &mut Tape, c: Comp) -> (f64, f64) {
    let (lo, hi) = range_of(c);
    let span = hi - lo;
    let kind = t.below(6);
    let (a, b) = match kind {
        0 => (lo, lo + (span * t.unit() * 0.1).floor()),
        1 => (hi - (span * t.unit() * 0.1).floor(), hi),
        2 => (lo, hi),
        3 => {
            let a = lo + (span * t.unit()).floor();
            (a, (a + 1.0 + t.below(8) as f64).min(hi))
        }
        4 => {
            let a = lo + (span * t.unit()).floor();
            (a, a)
        }
        _ => {
            let x = lo + (span * t.unit()).floor();
            let y = lo + (span * t.unit()).floor();
            (x.min(y), x.max(y))
        }
    };
    if c == Comp::F32 {
        (a as f32 as f64, (b as f32 as f64).max(a as f32 as f64))
    } else {
        (a, b)
    }
}

fn fill_band(pt: fr::PixelType, npx: usize, band: (f64, f64), seed: u64, extremes: bool) -> img::Buf {
    let c = img::comp(pt);
    let nch = img::channels(pt);
    let mut b = img::Buf::new(npx * pt.size());
    let mut r = Mix::new(seed);
    for i in 0..npx * nch {
        let u = if extremes { (r.next() & 1) as f64 } else { r.unit() };
        let v = match c {
            Comp::F32 => band.0 + (band.1 - band.0) * u,
            _ => (band.0 + ((band.1 - band.0 + 1.0) * u).floor()).min(band.1),
        };
        img::set_comp(c, b.bytes_mut(), i, v);
    }
    b
}

fn whitebox(t: &mut Tape) -> Outcome {
    let in_size = if t.bool() { t.range(1, 64) } else { t.range(65, 4096) };
    let out = if t.bool() { t.range(1, 64) } else { t.range(1, 1024) };
    let (l, w, _) = if t.chance(100) {
        crate::spec::decode_crop_axis(t, in_size)
    } else {
        (0.0, in_size as f64, 0)
    };
    let f = t.pick(&NONNEG);
    let adaptive = !t.chance(64);
    let mut o = Outcome::new(format!(
        "coefficient signs: in={} crop=({:?},{:?}) out={} filter={} adaptive={}",
        in_size, l, w, out, BUILTIN_NAMES[f as usize], adaptive
    ));
    if (w / out as f64).max(1.0) * 7.0 * out as f64 > 3.0e6 {
        o.label("skipped:too-large");
        return o;
    }
    let ft = FilterSpec::Builtin(f).to_fr();
    match catch(|| fr::verif::coefficients(in_size, l, l + w, out, ft, adaptive, true, true)) {
        Err(p) => o.fail(format!("panic while computing coefficients: {}", p)),
        Ok(d) => {
            if let Some(x) = d.values.iter().find(|v| **v < 0.0) {
                o.fail(format!("negative f64 weight {:?} for a non-negative kernel", x));
            }
            if let Some((_, ch)) = &d.precision16 {
                if ch.iter().any(|(_, v)| v.iter().any(|q| *q < 0)) {
                    o.fail("negative 16-bit fixed-point coefficient for a non-negative kernel".to_string());
                }
            }
            if let Some((_, ch)) = &d.precision32 {
                if ch.iter().any(|(_, v)| v.iter().any(|q| *q < 0)) {
                    o.fail("negative 32-bit fixed-point coefficient for a non-negative kernel".to_string());
                }
            }
            o.label("whitebox");
            o.nontrivial_key(fnv(format!("wb|{}|{:?}|{:?}|{}|{}|{}", in_size, l, w, out, f, adaptive).as_bytes()));
        }
    }
    o
}

fn check(tape: &[u8], ctx: &Ctx) -> Outcome {
    let mut t = Tape::new(tape);
    if t.chance(30) {
        return whitebox(&mut t);
    }
    let pair_mode = t.bool();
    let spec = ResizeSpec::decode(&mut t, &profile(ctx.tier));
    let c = img::comp(spec.pt);
    let nch = img::channels(spec.pt);
    let band = draw_band(&mut t, c);
    let seed = t.u32() as u64;
    let extremes = t.chance(64);
    let npx = spec.sw as usize * spec.sh as usize;
    let mut o = Outcome::new(format!(
        "{} band [{:?},{:?}] seed {:x}{}: {}",
        if pair_mode { "ordered pair" } else { "range" },
        band.0,
        band.1,
        seed,
        if extremes { " (extremes only)" } else { "" },
        spec.desc()
    ));
    let a = fill_band(spec.pt, npx, band, seed, extremes);
    let ra = match exec::run_resize(&spec, a.bytes(), 0xA5, Placement::Heap) {
        Ok(r) => r,
        Err(p) => {
            o.fail(format!("panic: {}", p));
            return o;
        }
    };
    if let Err(e) = &ra.result {
        o.fail(format!("resize returned an error for a crop box inside the source: {}", e));
        return o;
    }
    let outa = img::comps_f64(spec.pt, ra.dst.bytes());
    // per-channel min/max of the source
    let srcv = img::comps_f64(spec.pt, a.bytes());
    let mut mn = vec![f64::INFINITY; nch];
    let mut mx = vec![f64::NEG_INFINITY; nch];
    for (i, v) in srcv.iter().enumerate() {
        mn[i % nch] = mn[i % nch].min(*v);
        mx[i % nch] = mx[i % nch].max(*v);
    }
    for (i, &v) in outa.iter().enumerate() {
        let ch = i % nch;
        let tol = if c == Comp::F32 { ulp_at(mn[ch]).max(ulp_at(mx[ch])) } else { 0.0 };
        if !(v >= mn[ch] - tol && v <= mx[ch] + tol) {
            let px = i / nch;
            o.fail(format!(
                "destination (x={}, y={}, channel={}) = {:?} outside the source range [{:?}, {:?}] of that channel",
                px % spec.dw as usize,
                px / spec.dw as usize,
                ch,
                v,
                mn[ch],
                mx[ch]
            ));
            return o;
        }
    }
    if pair_mode {
        // B >= A component-wise
        let (lo, hi) = range_of(c);
        let _ = lo;
        let mut b = img::Buf::from_bytes(a.bytes());
        let mut r = Mix::new(seed ^ 0xB);
        let sparse = t.bool();
        for i in 0..npx * nch {
            let av = srcv[i];
            let raise = if sparse { r.below(16) == 0 } else { true };
            if !raise {
                continue;
            }
            let room = hi - av;
            let inc = match c {
                Comp::F32 => room.min(av.abs().max(1e-30) * r.unit() * 2.0),
                _ => (room * r.unit() * r.unit()).floor().min(room),
            };
            let bv = av + inc.max(0.0);
            img::set_comp(c, b.bytes_mut(), i, bv);
        }
        let rb = match exec::run_resize(&spec, b.bytes(), 0xA5, Placement::Heap) {
            Ok(r) => r,
            Err(p) => {
                o.fail(format!("panic on the raised image: {}", p));
                return o;
            }
        };
        if rb.result.is_err() {
            o.fail("resize of the raised image returned an error".to_string());
            return o;
        }
        let bsrc = img::comps_f64(spec.pt, b.bytes());
        debug_assert!(bsrc.iter().zip(&srcv).all(|(y, x)| y >= x));
        let outb = img::comps_f64(spec.pt, rb.dst.bytes());
        for (i, (&x, &y)) in outa.iter().zip(&outb).enumerate() {
            let tol = if c == Comp::F32 { ulp_at(x).max(ulp_at(y)) } else { 0.0 };
            if !(x <= y + tol) {
                let px = i / nch;
                o.fail(format!(
                    "raising source values lowered destination (x={}, y={}, channel={}): {:?} -> {:?}",
                    px % spec.dw as usize,
                    px / spec.dw as usize,
                    i % nch,
                    x,
                    y
                ));
                return o;
            }
        }
        o.label("mode:ordered-pair");
    } else {
        o.label("mode:range");
    }
    o.label(format!("type:{}", img::pt_name(spec.pt)));
    o.label(format!("alg:{}", spec.alg.kind()));
    o.label(format!("filter:{}", spec.alg.filter().map(|f| f.short()).unwrap_or_default()));
    o.label(format!("crop:{}/{}", crop_class_name(spec.crop_class.0), crop_class_name(spec.crop_class.1)));
    o.label(format!("ext:{}", img::ext_name(spec.ext)));
    if !spec.is_copy() {
        o.nontrivial_key(fnv(
            format!(
                "{}|{}|{}|{}|{}|{}|{:?}|{}|{:?}",
                pair_mode,
                img::pt_name(spec.pt),
                spec.sw,
                spec.sh,
                spec.dw,
                spec.dh,
                spec.crop_class,
                spec.alg.name(),
                band
            )
            .as_bytes(),
        ));
    }
    o
}
