//! C05 — a resize (alpha op, mapping, conversion) writes every destination pixel and nothing else.
use crate::exec;
use crate::img::{self, Buf, Comp, Content, Placement};
use crate::layout::{self, DstOp, LKind, Layout};
use crate::outcome::*;
use crate::runner::catch;
use crate::spec::{CropSpec, Profile, ResizeSpec};
use crate::tape::{fnv, Tape};
use fast_image_resize as fr;
use fr::images::ImageRef;
use fr::{CpuExtensions, IntoImageViewMut, PixelType};

pub static PROP: PropDef = PropDef {
    id: "C05",
    builds: |_| vec![Build::Opt, Build::RayonOpt],
    max_tape: 96,
    cases: |t| match t {
        Tier::Quick => 40_000,
        Tier::Thorough => 800_000,
    },
    fixed: no_fixed,
    check,
    rule: "tape -> one writing operation {resize with every algorithm incl. Nearest and SuperSampling m>=1, crops, alpha on/off, back-ends | multiply/divide alpha, \
           two-image and in-place | colour mapper forward/backward, two-image and in-place | change_type_of_pixel_components} x destination kind {exact borrowed buffer, \
           owned image, buffer with 1..3 spare rows or spare bytes, mutable cropped view at any offset inside a larger parent, nested cropped view} x thread count \
           {1,2,5,16} in the rayon build, plus deliberately failing calls (crop outside the image, pixel-type mismatch, size mismatch) and zero dimensions. Oracle: the call runs \
           twice from destination pre-fills A and B=!A: every byte of the w x h rectangle is identical in both runs (assigned), every byte outside equals its pre-fill, the \
           source bytes are unchanged, and Err / zero dimension leaves the destination untouched; in-place operations must equal the two-image variant inside and keep the \
           outside. Non-trivial = the call returned Ok, wrote >= 1 pixel and the destination has an outside (oversized, cropped or nested); distinct = (operation, types, sizes, destination layout).",
    assumptions: &["SuperSampling multiplicity 0 is outside the stated domain (m >= 1) and not generated"],
    exhaustive: not_exhaustive,
};

fn profile() -> Profile {
    let mut p = Profile::standard();
    p.allow_nearest = true;
    p.size_weights = [30, 110, 90, 16, 4];
    p.long_max = 1024;
    p
}

#[derive(Clone, Debug)]
enum OpSpec {
    Resize {
        spec: ResizeSpec,
        dst_pt: PixelType,
    },
    MulDiv {
        divide: bool,
        inplace: bool,
        pt: PixelType,
        dst_pt: PixelType,
        sw: u32,
        sh: u32,
        content: Content,
        ext: CpuExtensions,
    },
    Map {
        srgb: bool,
        forward: bool,
        inplace: bool,
        pt: PixelType,
        dst_pt: PixelType,
        sw: u32,
        sh: u32,
        content: Content,
    },
    Convert {
        pt: PixelType,
        dst_pt: PixelType,
        sw: u32,
        sh: u32,
        content: Content,
    },
}

impl OpSpec {
    fn desc(&self) -> String {
        match self {
            OpSpec::Resize { spec, dst_pt } => format!(
                "resize {}{}",
                spec.desc(),
                if *dst_pt != spec.pt { format!(" into a {} destination", img::pt_name(*dst_pt)) } else { String::new() }
            ),
            OpSpec::MulDiv { divide, inplace, pt, dst_pt, sw, sh, ext, .. } => format!(
                "{}_alpha{} {}->{} {}x{} on {}",
                if *divide { "divide" } else { "multiply" },
                if *inplace { "_inplace" } else { "" },
                img::pt_name(*pt),
                img::pt_name(*dst_pt),
                sw,
                sh,
                img::ext_name(*ext)
            ),
            OpSpec::Map { srgb, forward, inplace, pt, dst_pt, sw, sh, .. } => format!(
                "{} {}_map{} {}->{} {}x{}",
                if *srgb { "srgb" } else { "gamma22" },
                if *forward { "forward" } else { "backward" },
                if *inplace { "_inplace" } else { "" },
                img::pt_name(*pt),
                img::pt_name(*dst_pt),
                sw,
                sh
            ),
            OpSpec::Convert { pt, dst_pt, sw, sh, .. } => format!(
                "change_type_of_pixel_components {}->{} {}x{}",
                img::pt_name(*pt),
                img::pt_name(*dst_pt),
                sw,
                sh
            ),
        }
    }
    fn inplace(&self) -> bool {
        match self {
            OpSpec::MulDiv { inplace, .. } | OpSpec::Map { inplace, .. } => *inplace,
            _ => false,
        }
    }
    fn src_dims(&self) -> (PixelType, u32, u32, Content) {
        match self {
            OpSpec::Resize { spec, .. } => (spec.pt, spec.sw, spec.sh, spec.content),
            OpSpec::MulDiv { pt, sw, sh, content, .. }
            | OpSpec::Map { pt, sw, sh, content, .. }
            | OpSpec::Convert { pt, sw, sh, content, .. } => (*pt, *sw, *sh, *content),
        }
    }
    fn dst_pt(&self) -> PixelType {
        match self {
            OpSpec::Resize { dst_pt, .. }
            | OpSpec::MulDiv { dst_pt, .. }
            | OpSpec::Map { dst_pt, .. }
            | OpSpec::Convert { dst_pt, .. } => *dst_pt,
        }
    }
    fn kind(&self) -> &'static str {
        match self {
            OpSpec::Resize { .. } => "resize",
            OpSpec::MulDiv { .. } => "muldiv",
            OpSpec::Map { .. } => "map",
            OpSpec::Convert { .. } => "convert",
        }
    }
}

struct Perform<'a> {
    op: &'a OpSpec,
    src: &'a [u8],
    threads: u32,
}

impl<'a> DstOp for Perform<'a> {
    type Out = Result<Result<(), String>, String>;
    fn run<D: IntoImageViewMut + Send>(self, dst: &mut D) -> Self::Out {
        let (spt, sw, sh, _) = self.op.src_dims();
        let src = self.src;
        let op = self.op;
        // D is not Send in general; run the pool on this thread's behalf via install
        let f = move || -> Result<(), String> {
            match op {
                OpSpec::Resize { spec, .. } => {
                    let s = ImageRef::new(sw, sh, src, spt).map_err(|e| format!("{:?}", e))?;
                    let mut r = img::new_resizer(spec.ext);
                    r.resize(&s, dst, &spec.options()).map_err(|e| format!("{:?}", e))
                }
                OpSpec::MulDiv { divide, inplace, ext, .. } => {
                    let md = img::new_muldiv(*ext);
                    if *inplace {
                        if *divide {
                            md.divide_alpha_inplace(dst).map_err(|e| format!("{:?}", e))
                        } else {
                            md.multiply_alpha_inplace(dst).map_err(|e| format!("{:?}", e))
                        }
                    } else {
                        let s = ImageRef::new(sw, sh, src, spt).map_err(|e| format!("{:?}", e))?;
                        if *divide {
                            md.divide_alpha(&s, dst).map_err(|e| format!("{:?}", e))
                        } else {
                            md.multiply_alpha(&s, dst).map_err(|e| format!("{:?}", e))
                        }
                    }
                }
                OpSpec::Map { srgb, forward, inplace, .. } => {
                    let m = if *srgb { exec::srgb_mapper() } else { exec::gamma22_mapper() };
                    if *inplace {
                        if *forward {
                            m.forward_map_inplace(dst).map_err(|e| format!("{:?}", e))
                        } else {
                            m.backward_map_inplace(dst).map_err(|e| format!("{:?}", e))
                        }
                    } else {
                        let s = ImageRef::new(sw, sh, src, spt).map_err(|e| format!("{:?}", e))?;
                        if *forward {
                            m.forward_map(&s, dst).map_err(|e| format!("{:?}", e))
                        } else {
                            m.backward_map(&s, dst).map_err(|e| format!("{:?}", e))
                        }
                    }
                }
                OpSpec::Convert { .. } => {
                    let s = ImageRef::new(sw, sh, src, spt).map_err(|e| format!("{:?}", e))?;
                    fr::change_type_of_pixel_components(&s, dst).map_err(|e| format!("{:?}", e))
                }
            }
        };
        let threads = self.threads;
        catch(move || run_in_pool(threads, f))
    }
}

fn run_in_pool<R: Send>(threads: u32, f: impl FnOnce() -> R + Send) -> R {
    exec::in_pool(threads, f)
}

const MAP_PTS: [PixelType; 8] = [
    PixelType::U8,
    PixelType::U8x2,
    PixelType::U8x3,
    PixelType::U8x4,
    PixelType::U16,
    PixelType::U16x2,
    PixelType::U16x3,
    PixelType::U16x4,
];

fn small_dims(t: &mut Tape) -> (u32, u32) {
    let w = match t.below(8) {
        0 => 0,
        1 => 1,
        _ => t.range(1, 40),
    };
    let h = match t.below(8) {
        0 => 0,
        1 => 1,
        _ => t.range(1, 12),
    };
    (w, h)
}

fn decode_op(t: &mut Tape) -> (OpSpec, u32, u32, &'static str) {
    // returns op, dst dims, and the expected failure mode ("" = should succeed)
    let kind = t.weighted(&[120, 50, 45, 40]);
    match kind {
        0 => {
            let mut spec = ResizeSpec::decode(t, &profile());
            let mut expect = "";
            let mut dst_pt = spec.pt;
            match 15 - t.below(16) {
                0 => {
                    // crop box outside the image
                    let (w, h) = (spec.sw as f64, spec.sh as f64);
                    spec.crop = match t.below(6) {
                        // a box of exactly the destination's size (the copy fast path) that sticks out of the image
                        4 => CropSpec::Box {
                            l: (spec.sw as f64 - (spec.dw as f64 - 1.0).max(0.0)).max(0.0),
                            t: 0.0,
                            w: spec.dw as f64 + if spec.dw > spec.sw { 0.0 } else { 0.0 },
                            h: spec.dh.min(spec.sh) as f64,
                        },
                        5 => CropSpec::Box {
                            l: 0.0,
                            t: spec.sh as f64,
                            w: spec.dw as f64,
                            h: spec.dh as f64,
                        },
                        0 => CropSpec::Box { l: w, t: 0.0, w: 1.0, h },
                        1 => CropSpec::Box { l: 0.0, t: 0.0, w: w + 0.5, h },
                        2 => CropSpec::Box { l: 0.0, t: h * 0.5, w, h: h * 0.5 + 1e-9 },
                        _ => CropSpec::Box { l: 0.0, t: 0.0, w: -1.0, h },
                    };
                    expect = "crop";
                }
                1 => {
                    dst_pt = img::PT13[(img::pt_index(spec.pt) + 1 + t.below(12) as usize) % 13];
                    expect = "type";
                }
                2 => {
                    if t.bool() {
                        spec.dw = 0
                    } else {
                        spec.dh = 0
                    }
                    expect = "zero";
                }
                3 => {
                    // empty crop box
                    spec.crop = CropSpec::Box {
                        l: 0.0,
                        t: 0.0,
                        w: if t.bool() { 0.0 } else { spec.sw as f64 },
                        h: 0.0,
                    };
                    expect = "zero";
                }
                _ => {}
            }
            let (dw, dh) = (spec.dw, spec.dh);
            (OpSpec::Resize { spec, dst_pt }, dw, dh, expect)
        }
        1 => {
            let pt = t.pick(&img::ALPHA_PTS);
            let (sw, sh) = small_dims(t);
            let divide = t.bool();
            let inplace = t.bool();
            let content = Content {
                class: t.pick(&[1u8, 2, 6, 8, 10, 10, 0]),
                seed: t.u32() as u64,
            };
            let ext = t.pick(&img::exts());
            let mut dst_pt = pt;
            let (mut dw, mut dh) = (sw, sh);
            let mut expect = if sw == 0 || sh == 0 { "zero" } else { "" };
            if !inplace {
                match 9 - t.below(10) {
                    0 => {
                        dw = sw + 1;
                        expect = "size";
                    }
                    1 => {
                        dst_pt = img::ALPHA_PTS[(img::ALPHA_PTS.iter().position(|p| *p == pt).unwrap() + 1 + t.below(5) as usize) % 6];
                        expect = "type";
                    }
                    2 => {
                        dh = sh + 1;
                        expect = "size";
                    }
                    _ => {}
                }
            }
            (OpSpec::MulDiv { divide, inplace, pt, dst_pt, sw, sh, content, ext }, dw, dh, expect)
        }
        2 => {
            let pt = t.pick(&MAP_PTS);
            let (sw, sh) = small_dims(t);
            let inplace = t.bool();
            let nch = img::channels(pt);
            let mut dst_pt = if inplace || t.bool() {
                pt
            } else {
                img::pt_of(if img::comp(pt) == Comp::U8 { Comp::U16 } else { Comp::U8 }, nch).unwrap()
            };
            let content = Content {
                class: t.pick(&[1u8, 2, 8]),
                seed: t.u32() as u64,
            };
            let (mut dw, mut dh) = (sw, sh);
            let mut expect = if sw == 0 || sh == 0 { "zero" } else { "" };
            if !inplace {
                match 9 - t.below(10) {
                    0 => {
                        dw = sw + 1;
                        expect = "size";
                    }
                    1 => {
                        // different component count
                        dst_pt = img::pt_of(img::comp(dst_pt), nch % 4 + 1).unwrap();
                        expect = "type";
                    }
                    2 => {
                        dh = sh + 2;
                        expect = "size";
                    }
                    _ => {}
                }
            }
            (
                OpSpec::Map {
                    srgb: t.bool(),
                    forward: t.bool(),
                    inplace,
                    pt,
                    dst_pt,
                    sw,
                    sh,
                    content,
                },
                dw,
                dh,
                expect,
            )
        }
        _ => {
            let pt = t.pick(&img::PT13);
            let (sw, sh) = small_dims(t);
            let nch = img::channels(pt);
            // supported destinations: same component count; I32 only for 1 channel
            let mut comps = vec![Comp::U8, Comp::U16, Comp::F32];
            if nch == 1 {
                comps.push(Comp::I32);
            }
            let mut dst_pt = img::pt_of(t.pick(&comps), nch).unwrap();
            let content = Content {
                class: t.pick(&[1u8, 2, 8, 9]),
                seed: t.u32() as u64,
            };
            let (mut dw, mut dh) = (sw, sh);
            let mut expect = if sw == 0 || sh == 0 { "zero" } else { "" };
            match 9 - t.below(10) {
                0 => {
                    dw = sw + 1;
                    expect = "size";
                }
                1 => {
                    dst_pt = img::pt_of(img::comp(dst_pt), nch % 4 + 1).unwrap_or(PixelType::U8x2);
                    expect = "type";
                }
                2 => {
                    dh = sh + 1;
                    expect = "size";
                }
                _ => {}
            }
            (OpSpec::Convert { pt, dst_pt, sw, sh, content }, dw, dh, expect)
        }
    }
}

fn filler_a(i: usize) -> u8 {
    (0x5Au8).wrapping_add((i % 7) as u8)
}
fn filler_b(i: usize) -> u8 {
    !filler_a(i)
}

fn check(tape: &[u8], ctx: &Ctx) -> Outcome {
    let mut t = Tape::new(tape);
    let (op, dw, dh, expect) = decode_op(&mut t);
    let dst_pt = op.dst_pt();
    let lay = Layout::decode(&mut t, dw, dh, &layout::DYN_DST_KINDS);
    let threads = if exec::has_rayon() { [1u32, 2, 5, 16][t.below(4) as usize] } else { 0 };
    let guard = t.chance(100);
    let mut o = Outcome::new(format!(
        "{} ; destination {}x{} {} ; threads {}",
        op.desc(),
        dw,
        dh,
        lay.desc(),
        threads
    ));
    let _ = ctx;
    let (spt, sw, sh, content) = op.src_dims();
    let ps = dst_pt.size();
    let placement = if guard { Placement::GuardEnd } else { Placement::Heap };
    // source
    let mut src = img::make_image(spt, sw, sh, content, placement);
    if let OpSpec::MulDiv { pt, .. } = &op {
        if img::comp(*pt) == Comp::F32 {
            // keep float alpha data moderate and finite
            let n = src.len() / 4;
            for i in 0..n {
                let v = img::get_comp(Comp::F32, src.bytes(), i);
                if !v.is_finite() || v.abs() > 1e6 {
                    img::set_comp(Comp::F32, src.bytes_mut(), i, 0.25);
                }
            }
        }
    }
    let src_hash = fnv(src.bytes());
    let inplace = op.inplace();
    let npx = dw as usize * dh as usize;

    // reference for in-place operations: the two-image variant into a plain buffer
    let mut reference: Option<Vec<u8>> = None;
    if inplace {
        let two = match &op {
            OpSpec::MulDiv { divide, pt, dst_pt, sw, sh, content, ext, .. } => OpSpec::MulDiv {
                divide: *divide,
                inplace: false,
                pt: *pt,
                dst_pt: *dst_pt,
                sw: *sw,
                sh: *sh,
                content: *content,
                ext: *ext,
            },
            OpSpec::Map { srgb, forward, pt, dst_pt, sw, sh, content, .. } => OpSpec::Map {
                srgb: *srgb,
                forward: *forward,
                inplace: false,
                pt: *pt,
                dst_pt: *dst_pt,
                sw: *sw,
                sh: *sh,
                content: *content,
            },
            _ => unreachable!(),
        };
        let plain = Layout::plain(dw, dh);
        let mut rb = Buf::new(npx * ps);
        let r = layout::with_dst_dyn(
            &plain,
            dst_pt,
            rb.bytes_mut(),
            Perform {
                op: &two,
                src: src.bytes(),
                threads: 0,
            },
        );
        match r {
            Ok(Ok(Ok(()))) => reference = Some(rb.bytes().to_vec()),
            Ok(Ok(Err(e))) => {
                o.fail(format!("two-image reference variant returned {}", e));
                return o;
            }
            Ok(Err(p)) => {
                o.fail(format!("two-image reference variant panicked: {}", p));
                return o;
            }
            Err(e) => {
                o.fail(format!("harness could not build the plain reference destination: {}", e));
                return o;
            }
        }
    }

    let mut results: Vec<(Result<(), String>, Vec<u8>)> = Vec::new();
    for (run_idx, filler) in [filler_a as fn(usize) -> u8, filler_b as fn(usize) -> u8].iter().enumerate() {
        // destination parent: pre-fill, and for in-place operations the input inside
        let inside: Vec<u8> = if inplace {
            src.bytes()[..npx * ps].to_vec()
        } else {
            // pre-fill the inside too (it must be overwritten)
            let base = lay.t as usize * lay.pw as usize * ps + lay.l as usize * ps;
            let mut v = vec![0u8; npx * ps];
            let rl = dw as usize * ps;
            for y in 0..dh as usize {
                for x in 0..rl {
                    let off = base + y * lay.pw as usize * ps + x;
                    v[y * rl + x] = filler(off);
                }
            }
            v
        };
        let mut parent = lay.place(ps, &inside, filler, placement);
        let before = parent.bytes().to_vec();
        let r = layout::with_dst_dyn(
            &lay,
            dst_pt,
            parent.bytes_mut(),
            Perform {
                op: &op,
                src: src.bytes(),
                threads,
            },
        );
        let res = match r {
            Err(e) => {
                // the library refused to build the destination container
                o.label(format!("container-rejected:{}", e));
                return o;
            }
            Ok(Err(p)) => {
                o.fail(format!("panic (run {}): {}", run_idx, p));
                return o;
            }
            Ok(Ok(res)) => res,
        };
        if fnv(src.bytes()) != src_hash {
            o.fail("the source image was modified".to_string());
            return o;
        }
        // outside untouched
        if let Some(off) = lay.outside_changed(ps, parent.bytes(), filler) {
            o.fail(format!(
                "byte outside the destination's {}x{} rectangle was modified: offset {} ({}) {:#04x} -> {:#04x}",
                dw,
                dh,
                off,
                lay.locate(ps, off),
                before[off],
                parent.bytes()[off]
            ));
            return o;
        }
        let zero = dw == 0 || dh == 0 || sw == 0 || sh == 0 || expect == "zero";
        if res.is_err() || zero {
            if parent.bytes() != &before[..] {
                let off = img::bytes_diff(parent.bytes(), &before).unwrap_or(0);
                o.fail(format!(
                    "the call returned {:?}{} but modified the destination at offset {} ({})",
                    res,
                    if zero { " (zero dimension)" } else { "" },
                    off,
                    lay.locate(ps, off)
                ));
                return o;
            }
        }
        results.push((res, lay.extract(ps, parent.bytes())));
    }
    let (ra, ia) = &results[0];
    let (rb, ib) = &results[1];
    if ra != rb {
        o.fail(format!("result depends on the destination's previous content: {:?} vs {:?}", ra, rb));
        return o;
    }
    match (expect, ra) {
        ("", Err(e)) => {
            o.fail(format!("the call failed unexpectedly: {}", e));
            return o;
        }
        ("crop", Ok(())) | ("type", Ok(())) | ("size", Ok(())) => {
            o.fail(format!("a call that must fail ({}) returned Ok", expect));
            return o;
        }
        _ => {}
    }
    o.label(format!("op:{}", op.kind()));
    o.label(format!("dst:{:?}", lay.kind));
    o.label(format!("expect:{}", if expect.is_empty() { "ok" } else { expect }));
    if threads > 0 {
        o.label(format!("@threads:{}", threads));
    }
    if ra.is_ok() && expect.is_empty() && npx > 0 && sw > 0 && sh > 0 {
        if inplace {
            let want = reference.as_ref().unwrap();
            for (name, got) in [("A", ia), ("B", ib)] {
                if let Some(i) = img::bytes_diff(want, got) {
                    o.fail(format!(
                        "in-place result differs from the two-image variant at pixel {} (byte {}), pre-fill {}",
                        i / ps,
                        i % ps,
                        name
                    ));
                    return o;
                }
            }
        } else if let Some(i) = img::bytes_diff(ia, ib) {
            let px = i / ps;
            o.fail(format!(
                "destination pixel (x={}, y={}) depends on the pre-fill (stale / unassigned): {:#04x} vs {:#04x}",
                px % dw as usize,
                px / dw as usize,
                ia[i],
                ib[i]
            ));
            return o;
        }
        if !matches!(lay.kind, LKind::Plain | LKind::Owned) {
            o.nontrivial_key(fnv(format!("{}|{}x{}|{:?}", op.desc(), dw, dh, lay).as_bytes()));
        }
    }
    o
}
