//! C17 — depth conversion is monotone, keeps endpoints, lossless when widening.
use crate::img::{self, Buf, Comp};
use crate::outcome::*;
use crate::runner::catch;
use crate::tape::{fnv, Mix, Tape};
use fast_image_resize as fr;
use fr::images::{Image, ImageRef};
use fr::PixelType;

pub static PROP: PropDef = PropDef {
    id: "C17",
    builds: opt_and_dbg,
    max_tape: 32,
    cases: |t| match t {
        Tier::Quick => 100_000,
        Tier::Thorough => 1_000_000,
    },
    fixed,
    check,
    rule: "enumeration (fixed tapes) over every (source, destination) component pair the dispatcher supports, for 1..4 channels: integer sources - all 256 / 65,536 values as a ramp image; \
           I32 and F32 sources - boundary values (MIN,-1,0,1,MAX; +-0,+-1,+-denormal,+-inf,NaN,1+-ulp) plus 2^20 ordered samples per pair in quick, all 2^32 bit patterns in numeric order in \
           thorough. Oracle: output non-decreasing in the numeric order of the input; endpoints (0->0, max->max; I32 destination: the top quantisation bucket; signed pairs: -1<->MIN, 1<->MAX); \
           out-of-range floats saturate; widen-then-narrow is the identity; NaN does not panic. Generated tapes: random images through random pairs incl. different sizes, different channel counts and \
           unsupported pairs, which must be rejected with the destination untouched. Every (pair, value) is one distinct non-trivial case.",
    assumptions: &["for an I32 destination 'maximum' means the top bucket of the source's quantisation step (u8/u16 -> I32 is a shift)"],
    exhaustive: |t| t == Tier::Thorough,
};

const COMPS: [Comp; 4] = [Comp::U8, Comp::U16, Comp::I32, Comp::F32];

fn supported(sc: Comp, dc: Comp, nch: usize) -> bool {
    if nch == 1 {
        true
    } else {
        sc != Comp::I32 && dc != Comp::I32
    }
}

fn fixed(tier: Tier) -> Vec<Vec<u8>> {
    let mut v = Vec::new();
    for (si, sc) in COMPS.iter().enumerate() {
        for (di, dc) in COMPS.iter().enumerate() {
            for nch in 1..=4usize {
                if !supported(*sc, *dc, nch) {
                    continue;
                }
                match sc {
                    Comp::U8 | Comp::U16 => v.push(vec![0xEE, si as u8, di as u8, nch as u8, 0, 0, 0xEE]),
                    _ => {
                        if nch != 1 && nch != 3 {
                            continue;
                        }
                        // boundaries
                        v.push(vec![0xEE, si as u8, di as u8, nch as u8, 1, 0, 0xEE]);
                        if tier == Tier::Thorough && nch == 1 {
                            for chunk in 0..=255u8 {
                                v.push(vec![0xEE, si as u8, di as u8, nch as u8, 3, chunk, 0xEE]);
                            }
                        } else {
                            for chunk in 0..16u8 {
                                v.push(vec![0xEE, si as u8, di as u8, nch as u8, 2, chunk, 0xEE]);
                            }
                        }
                    }
                }
            }
        }
    }
    v
}

fn f32_from_ordered(u: u32) -> f32 {
    if u >> 31 == 1 {
        f32::from_bits(u & 0x7FFF_FFFF)
    } else {
        f32::from_bits(!u)
    }
}

/// source values (as f64, exactly representable) in numeric order
fn source_values(sc: Comp, mode: u8, chunk: u32) -> Vec<f64> {
    match (sc, mode) {
        (Comp::U8, _) => (0..256).map(|v| v as f64).collect(),
        (Comp::U16, _) => (0..65536).map(|v| v as f64).collect(),
        (Comp::I32, 1) => {
            let mut v: Vec<i64> = vec![i32::MIN as i64, i32::MIN as i64 + 1, -(1 << 23) - 1, -(1 << 23), -65536, -2, -1, 0, 1, 2, 65535, 65536];
            for s in [14, 15, 16, 22, 23, 24, 30] {
                for d in [-1i64, 0, 1] {
                    v.push((1i64 << s) + d);
                    v.push(-(1i64 << s) + d);
                }
            }
            v.push(i32::MAX as i64 - 1);
            v.push(i32::MAX as i64);
            v.retain(|x| *x >= i32::MIN as i64 && *x <= i32::MAX as i64);
            v.sort();
            v.dedup();
            v.into_iter().map(|x| x as f64).collect()
        }
        (Comp::I32, 2) => {
            // 65536 ordered samples in the chunk's sixteenth of the range, stride with jitter
            let mut r = Mix::new(0x117 + chunk as u64);
            let lo = i32::MIN as i64 + (chunk as i64) * (1i64 << 28);
            let mut v = Vec::with_capacity(65537);
            let mut x = lo;
            let hi = lo + (1i64 << 28) - 1;
            while x <= hi {
                v.push(x as f64);
                x += 1 + r.below(8192) as i64;
            }
            v.push(hi as f64);
            v
        }
        (Comp::I32, _) => {
            let lo = i32::MIN as i64 + (chunk as i64) * (1i64 << 24) - if chunk > 0 { 1 } else { 0 };
            let hi = i32::MIN as i64 + (chunk as i64 + 1) * (1i64 << 24) - 1;
            (lo..=hi).map(|x| x as f64).collect()
        }
        (Comp::F32, 1) => {
            let mut v: Vec<f32> = vec![
                f32::NEG_INFINITY,
                f32::MIN,
                -1e30,
                -2.0,
                -1.0 - f32::EPSILON,
                -1.0,
                -1.0 + f32::EPSILON / 2.0,
                -0.5,
                -f32::MIN_POSITIVE,
                -f32::from_bits(1),
                -0.0,
                0.0,
                f32::from_bits(1),
                f32::MIN_POSITIVE,
                1.0 / 65535.0,
                1.0 / 255.0,
                0.5,
                1.0 - f32::EPSILON / 2.0,
                1.0,
                1.0 + f32::EPSILON,
                2.0,
                1e30,
                f32::MAX,
                f32::INFINITY,
            ];
            for k in 0..=255 {
                v.push(k as f32 / 255.0);
                v.push((k as f32 + 0.5) / 255.0);
                v.push((k as f32 + 0.5) / 255.0 - f32::EPSILON / 4.0);
            }
            v.sort_by(|a, b| a.partial_cmp(b).unwrap());
            let mut out: Vec<f64> = v.into_iter().map(|x| x as f64).collect();
            out.push(f64::NAN);
            out
        }
        (Comp::F32, 2) => {
            let mut r = Mix::new(0xF32 + chunk as u64);
            let lo = (chunk as u64) << 28;
            let hi = lo + (1u64 << 28) - 1;
            let mut v = Vec::with_capacity(65537);
            let mut u = lo;
            while u <= hi {
                v.push(f32_from_ordered(u as u32) as f64);
                u += 1 + r.below(8192);
            }
            v.push(f32_from_ordered(hi as u32) as f64);
            v
        }
        (Comp::F32, _) => {
            let lo = ((chunk as u64) << 24).saturating_sub(if chunk > 0 { 1 } else { 0 });
            let hi = ((chunk as u64 + 1) << 24) - 1;
            (lo..=hi).map(|u| f32_from_ordered(u as u32) as f64).collect()
        }
    }
}

fn range_min_max(c: Comp, other: Comp) -> (f64, f64) {
    // the range of `c` that corresponds to the full range of `other`
    match c {
        Comp::U8 => (0.0, 255.0),
        Comp::U16 => (0.0, 65535.0),
        Comp::I32 => {
            if matches!(other, Comp::F32 | Comp::I32) {
                (i32::MIN as f64, i32::MAX as f64)
            } else {
                (0.0, i32::MAX as f64)
            }
        }
        Comp::F32 => {
            if matches!(other, Comp::I32) {
                (-1.0, 1.0)
            } else {
                (0.0, 1.0)
            }
        }
    }
}

fn convert(spt: PixelType, dpt: PixelType, w: u32, h: u32, src: &[u8], dst: &mut [u8], dw: u32, dh: u32) -> Result<Result<(), String>, String> {
    catch(|| {
        let s = ImageRef::new(w, h, src, spt).map_err(|e| format!("{:?}", e))?;
        let mut d = Image::from_slice_u8(dw, dh, dst, dpt).map_err(|e| format!("{:?}", e))?;
        fr::change_type_of_pixel_components(&s, &mut d).map_err(|e| format!("{:?}", e))
    })
}

fn literal(si: u8, di: u8, nch: u8, v: f64, sc: Comp) -> Vec<u8> {
    let bits: u32 = match sc {
        Comp::U8 | Comp::U16 => v as u32,
        Comp::I32 => (v as i32) as u32,
        Comp::F32 => (v as f32).to_bits(),
    };
    let mut t = vec![0xED, si, di, nch];
    t.extend_from_slice(&bits.to_be_bytes());
    t.push(0xED);
    t
}

fn run_values(o: &mut Outcome, si: usize, di: usize, nch: usize, vals: &[f64]) {
    let (sc, dc) = (COMPS[si], COMPS[di]);
    let spt = img::pt_of(sc, nch).unwrap();
    let dpt = img::pt_of(dc, nch).unwrap();
    let n = vals.len();
    // a ramp image: pixel i carries value i in every channel (rotated per channel so lanes differ)
    let w = 251u32.min(n as u32).max(1);
    let h = ((n as u32) + w - 1) / w;
    let total = (w * h) as usize;
    let mut src = Buf::new(total * spt.size());
    let at = |i: usize, ch: usize| -> usize { (i + ch * 7) % n };
    for i in 0..total {
        for ch in 0..nch {
            let v = vals[at(i.min(n - 1), ch)];
            match sc {
                Comp::F32 => {
                    let idx = i * nch + ch;
                    src.bytes_mut()[4 * idx..4 * idx + 4].copy_from_slice(&(v as f32).to_ne_bytes());
                }
                _ => img::set_comp(sc, src.bytes_mut(), i * nch + ch, v),
            }
        }
    }
    let mut dst = Buf::new(total * dpt.size());
    dst.fill(0x5A);
    match convert(spt, dpt, w, h, src.bytes(), dst.bytes_mut(), w, h) {
        Err(p) => {
            o.fail(format!("panic converting {} -> {}: {}", img::pt_name(spt), img::pt_name(dpt), p));
            return;
        }
        Ok(Err(e)) => {
            o.fail(format!("{} -> {} returned {}", img::pt_name(spt), img::pt_name(dpt), e));
            return;
        }
        Ok(Ok(())) => {}
    }
    // table: value index -> output (from channel 0), and check that every channel agrees
    let mut out = vec![0.0f64; n];
    let mut seen = vec![false; n];
    for i in 0..total {
        for ch in 0..nch {
            let k = at(i.min(n - 1), ch);
            let got = img::get_comp(dc, dst.bytes(), i * nch + ch);
            if seen[k] {
                let same = got == out[k] || (got.is_nan() && out[k].is_nan());
                if !same {
                    o.fail(format!(
                        "{} -> {}: value {:?} converts to {:?} in one position and {:?} in another (pixel {}, channel {})",
                        img::pt_name(spt),
                        img::pt_name(dpt),
                        vals[k],
                        out[k],
                        got,
                        i,
                        ch
                    ));
                    o.repro = Some(literal(si as u8, di as u8, nch as u8, vals[k], sc));
                    return;
                }
            } else {
                out[k] = got;
                seen[k] = true;
            }
        }
    }
    if sc == dc {
        // same component type: the conversion is the identity on every value
        for k in 0..n {
            o.evals += 1;
            let same = out[k] == vals[k] || (out[k].is_nan() && vals[k].is_nan());
            if !same {
                o.fail(format!("{} -> {}: {:?} becomes {:?}", img::pt_name(spt), img::pt_name(dpt), vals[k], out[k]));
                o.repro = Some(literal(si as u8, di as u8, nch as u8, vals[k], sc));
                return;
            }
        }
        o.bulk_nontrivial += n as u64;
        return;
    }
    let (smin, smax) = range_min_max(sc, dc);
    let (dmin, dmax) = range_min_max(dc, sc);
    let top_ok = |got: f64| -> bool {
        if dc == Comp::I32 && matches!(sc, Comp::U8 | Comp::U16) {
            let step = if sc == Comp::U8 { (1u64 << 23) as f64 } else { (1u64 << 15) as f64 };
            got >= dmax - step + 1.0
        } else {
            got == dmax
        }
    };
    let mut prev: Option<(f64, f64)> = None;
    for k in 0..n {
        let v = vals[k];
        let got = out[k];
        o.evals += 1;
        if v.is_nan() {
            continue;
        }
        let fail = |o: &mut Outcome, msg: String| {
            o.fail(format!("{} -> {}: {}", img::pt_name(spt), img::pt_name(dpt), msg));
            o.repro = Some(literal(si as u8, di as u8, nch as u8, v, sc));
        };
        if got.is_nan() {
            fail(o, format!("{:?} converts to NaN", v));
            return;
        }
        // endpoints and saturation
        if v == smin && got != dmin {
            fail(o, format!("the minimum {:?} of the source range converts to {:?} instead of {:?}", v, got, dmin));
            return;
        }
        if v == smax && !top_ok(got) {
            fail(o, format!("the maximum {:?} of the source range converts to {:?} instead of {:?}", v, got, dmax));
            return;
        }
        if v < smin && got != dmin {
            fail(o, format!("{:?} below the source range converts to {:?} instead of saturating at {:?}", v, got, dmin));
            return;
        }
        if v > smax && !top_ok(got) {
            fail(o, format!("{:?} above the source range converts to {:?} instead of saturating at {:?}", v, got, dmax));
            return;
        }
        if v == 0.0 && got != 0.0 {
            fail(o, format!("0 converts to {:?}", got));
            return;
        }
        // monotone
        if let Some((pv, pg)) = prev {
            if got < pg {
                fail(o, format!("not monotone: {:?} -> {:?} but the larger {:?} -> {:?}", pv, pg, v, got));
                return;
            }
        }
        prev = Some((v, got));
    }
    // widen-then-narrow identity
    let widening = matches!(
        (sc, dc),
        (Comp::U8, Comp::U16) | (Comp::U8, Comp::I32) | (Comp::U8, Comp::F32) | (Comp::U16, Comp::I32) | (Comp::U16, Comp::F32)
    );
    if widening {
        let mut back = Buf::new(total * spt.size());
        match convert(dpt, spt, w, h, dst.bytes(), back.bytes_mut(), w, h) {
            Ok(Ok(())) => {
                if let Some(i) = img::bytes_diff(src.bytes(), back.bytes()) {
                    let ci = i / sc.size();
                    o.fail(format!(
                        "{} -> {} -> {} is not the identity: {:?} comes back as {:?}",
                        img::pt_name(spt),
                        img::pt_name(dpt),
                        img::pt_name(spt),
                        img::get_comp(sc, src.bytes(), ci),
                        img::get_comp(sc, back.bytes(), ci)
                    ));
                    o.repro = Some(literal(si as u8, di as u8, nch as u8, img::get_comp(sc, src.bytes(), ci), sc));
                    return;
                }
            }
            Ok(Err(e)) => o.fail(format!("narrowing back returned {}", e)),
            Err(p) => o.fail(format!("panic narrowing back: {}", p)),
        }
    }
    o.bulk_nontrivial += n as u64;
}

/// Integer sources: a big image of random values (more than 2^14 / 2^22 components, where an implementation
/// might switch to another code path) must convert every component exactly like the small ramp did.
fn big_image(o: &mut Outcome, si: usize, di: usize, nch: usize) {
    let (sc, dc) = (COMPS[si], COMPS[di]);
    let spt = img::pt_of(sc, nch).unwrap();
    let dpt = img::pt_of(dc, nch).unwrap();
    let n = if sc == Comp::U8 { 256usize } else { 65536 };
    // per-value table from a one-row ramp
    let mut ramp = Buf::new(n * spt.size());
    for v in 0..n {
        for ch in 0..nch {
            img::set_comp(sc, ramp.bytes_mut(), v * nch + ch, v as f64);
        }
    }
    let mut rout = Buf::new(n * dpt.size());
    if !matches!(convert(spt, dpt, n as u32, 1, ramp.bytes(), rout.bytes_mut(), n as u32, 1), Ok(Ok(()))) {
        o.fail("ramp conversion failed".to_string());
        return;
    }
    let table: Vec<f64> = (0..n).map(|v| img::get_comp(dc, rout.bytes(), v * nch)).collect();
    let (w, h): (u32, u32) = if sc == Comp::U8 {
        (611, 300)
    } else if nch == 1 {
        (2100, 2000)
    } else {
        (1300, 900)
    };
    let total = (w * h) as usize;
    let mut src = Buf::new(total * spt.size());
    let mut r = Mix::new(0xB16 + si as u64 * 7 + di as u64 * 3 + nch as u64);
    for i in 0..total * nch {
        img::set_comp(sc, src.bytes_mut(), i, r.below(n as u64) as f64);
    }
    let mut dst = Buf::new(total * dpt.size());
    dst.fill(0x5A);
    match convert(spt, dpt, w, h, src.bytes(), dst.bytes_mut(), w, h) {
        Ok(Ok(())) => {}
        Ok(Err(e)) => {
            o.fail(format!("big image {}x{} returned {}", w, h, e));
            return;
        }
        Err(p) => {
            o.fail(format!("panic on a big image {}x{}: {}", w, h, p));
            return;
        }
    }
    for i in 0..total * nch {
        let v = img::get_comp(sc, src.bytes(), i);
        let got = img::get_comp(dc, dst.bytes(), i);
        let want = table[v as usize];
        if !(got == want) {
            o.fail(format!(
                "{} -> {}: in a {}x{} image component {} ({:?}) converts to {:?}, but to {:?} in a small image",
                img::pt_name(spt),
                img::pt_name(dpt),
                w,
                h,
                i,
                v,
                got,
                want
            ));
            return;
        }
    }
    o.evals += (total * nch) as u64;
    o.label_n("big-image-components", (total * nch) as u64);
}

fn enumerate(tape: &[u8]) -> Outcome {
    let (si, di, nch, mode, chunk) = (tape[1] as usize % 4, tape[2] as usize % 4, (tape[3] as usize).clamp(1, 4), tape[4], tape[5] as u32);
    let (sc, dc) = (COMPS[si], COMPS[di]);
    let mut o = Outcome::new(format!(
        "{} -> {} ({}), {}",
        img::pt_name(img::pt_of(sc, nch).unwrap_or(PixelType::U8)),
        img::pt_name(img::pt_of(dc, nch).unwrap_or(PixelType::U8)),
        match mode {
            0 => "all values of the integer source".to_string(),
            1 => "boundary values".to_string(),
            2 => format!("ordered samples, sixteenth {} of the range", chunk),
            _ => format!("all 2^24 bit patterns of chunk {} in numeric order", chunk),
        },
        "monotone / endpoints / saturation / widen-narrow identity"
    ));
    o.evals = 0;
    if !supported(sc, dc, nch) || img::pt_of(sc, nch).is_none() || img::pt_of(dc, nch).is_none() {
        o.label("skipped:unsupported-pair");
        return o;
    }
    let chunk = if mode == 2 { chunk % 16 } else { chunk };
    let vals = source_values(sc, mode, chunk);
    run_values(&mut o, si, di, nch, &vals);
    if mode == 0 && !o.failed() {
        big_image(&mut o, si, di, nch);
    }
    o.label_n(format!("pair:{:?}->{:?}", sc, dc), vals.len() as u64);
    o
}

fn check_random(t: &mut Tape) -> Outcome {
    let spt = t.pick(&img::PT13);
    let dpt = t.pick(&img::PT13);
    let (w, h) = (t.range(0, 12), t.range(0, 8));
    let mismatch = 7 - t.below(8);
    let (dw, dh) = match mismatch {
        0 => (w + 1, h),
        1 => (w, h + 1),
        _ => (w, h),
    };
    let seed = t.u32() as u64;
    let class = t.pick(&[1u8, 2, 9, 8]);
    let mut o = Outcome::new(format!(
        "convert {} {}x{} -> {} {}x{} content class {} seed {:x}",
        img::pt_name(spt),
        w,
        h,
        img::pt_name(dpt),
        dw,
        dh,
        class,
        seed
    ));
    let src = img::make_image(spt, w, h, img::Content { class, seed }, img::Placement::Heap);
    let mut dst = Buf::new(dw as usize * dh as usize * dpt.size());
    dst.fill(0x5A);
    let before = dst.bytes().to_vec();
    let ok_pair = img::channels(spt) == img::channels(dpt) && supported(img::comp(spt), img::comp(dpt), img::channels(spt));
    match convert(spt, dpt, w, h, src.bytes(), dst.bytes_mut(), dw, dh) {
        Err(p) => o.fail(format!("panic: {}", p)),
        Ok(res) => {
            let should_ok = ok_pair && (dw, dh) == (w, h);
            match (&res, should_ok) {
                (Ok(()), false) => o.fail(format!(
                    "accepted although {}",
                    if !ok_pair { "the pixel types have different component counts / an unsupported combination" } else { "the sizes differ" }
                )),
                (Err(e), true) => o.fail(format!("a supported conversion was rejected: {}", e)),
                (Err(_), false) => {
                    if dst.bytes() != &before[..] {
                        o.fail("destination modified although the call was rejected".to_string());
                    }
                }
                (Ok(()), true) => {
                    // spot check against the table semantics: same value => same output, monotone pairs
                    let (sc, dc) = (img::comp(spt), img::comp(dpt));
                    let n = (w * h) as usize * img::channels(spt);
                    let mut pairs: Vec<(f64, f64)> = (0..n)
                        .map(|i| (img::get_comp(sc, src.bytes(), i), img::get_comp(dc, dst.bytes(), i)))
                        .filter(|(a, _)| !a.is_nan())
                        .collect();
                    pairs.sort_by(|a, b| a.0.partial_cmp(&b.0).unwrap());
                    for w2 in pairs.windows(2) {
                        if w2[1].1 < w2[0].1 {
                            o.fail(format!("not monotone: {:?} -> {:?} but {:?} -> {:?}", w2[0].0, w2[0].1, w2[1].0, w2[1].1));
                            break;
                        }
                    }
                }
            }
            o.label(format!("random:{}", if res.is_ok() { "ok" } else { "rejected" }));
        }
    }
    o.nontrivial_key(fnv(format!("{}|{}|{}|{}|{}|{}|{:x}", img::pt_name(spt), img::pt_name(dpt), w, h, dw, dh, seed).as_bytes()));
    o
}

fn check(tape: &[u8], _ctx: &Ctx) -> Outcome {
    if tape.len() == 7 && tape[0] == 0xEE && tape[6] == 0xEE && tape[4] <= 3 {
        return enumerate(tape);
    }
    if tape.len() == 9 && tape[0] == 0xED && tape[8] == 0xED {
        let (si, di, nch) = (tape[1] as usize % 4, tape[2] as usize % 4, (tape[3] as usize).clamp(1, 4));
        let bits = u32::from_be_bytes([tape[4], tape[5], tape[6], tape[7]]);
        let sc = COMPS[si];
        let v = match sc {
            Comp::U8 => (bits & 255) as f64,
            Comp::U16 => (bits & 65535) as f64,
            Comp::I32 => (bits as i32) as f64,
            Comp::F32 => f32::from_bits(bits) as f64,
        };
        let mut o = Outcome::new(format!("{:?} -> {:?} ({} channels) around the value {:?}", sc, COMPS[di], nch, v));
        o.evals = 0;
        if !supported(sc, COMPS[di], nch) {
            return o;
        }
        // the value with its numeric neighbours and the range ends, in order
        let mut vals: Vec<f64> = match sc {
            Comp::U8 => vec![0.0, (v - 1.0).max(0.0), v, (v + 1.0).min(255.0), 255.0],
            Comp::U16 => vec![0.0, (v - 1.0).max(0.0), v, (v + 1.0).min(65535.0), 65535.0],
            Comp::I32 => vec![i32::MIN as f64, (v - 1.0).max(i32::MIN as f64), v, (v + 1.0).min(i32::MAX as f64), i32::MAX as f64],
            Comp::F32 => {
                let f = v as f32;
                let u = |x: f32| if x.to_bits() >> 31 == 1 { !x.to_bits() } else { x.to_bits() | 0x8000_0000 };
                let k = u(f);
                vec![
                    -1.0,
                    f32_from_ordered(k.saturating_sub(1)) as f64,
                    v,
                    f32_from_ordered(k.saturating_add(1)) as f64,
                    1.0,
                ]
            }
        };
        vals.retain(|x| !x.is_nan());
        vals.sort_by(|a, b| a.partial_cmp(b).unwrap());
        vals.dedup();
        run_values(&mut o, si, di, nch, &vals);
        return o;
    }
    let mut t = Tape::new(tape);
    check_random(&mut t)
}
