use crate::outcome::PropDef;

pub mod c01;
pub mod c15;

pub fn all() -> Vec<&'static PropDef> {
    vec![&c01::PROP, &c15::PROP]
}

pub fn find(id: &str) -> Option<&'static PropDef> {
    all().into_iter().find(|p| p.id.eq_ignore_ascii_case(id))
}
