use crate::outcome::PropDef;

pub mod c01;
pub mod c02;
pub mod c03;
pub mod c04;
pub mod c05;
pub mod c06;
pub mod c07;
pub mod c08;
pub mod c09;
pub mod c10;
pub mod c11;
pub mod c12;
pub mod c13;
pub mod c14;
pub mod c15;
pub mod c16;
pub mod c17;
pub mod c18;

pub fn all() -> Vec<&'static PropDef> {
    vec![
        &c01::PROP,
        &c02::PROP,
        &c03::PROP,
        &c04::PROP,
        &c05::PROP,
        &c06::PROP,
        &c07::PROP,
        &c08::PROP,
        &c09::PROP,
        &c10::PROP,
        &c11::PROP,
        &c12::PROP,
        &c13::PROP,
        &c14::PROP,
        &c15::PROP,
        &c16::PROP,
        &c17::PROP,
        &c18::PROP,
    ]
}

pub fn find(id: &str) -> Option<&'static PropDef> {
    all().into_iter().find(|p| p.id.eq_ignore_ascii_case(id))
}
