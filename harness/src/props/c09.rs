//! C09 — a reused Resizer behaves exactly like a fresh one.
use crate::img::{self, Buf, Placement};
use crate::outcome::*;
use crate::runner::catch;
use crate::spec::{AlgSpec, CropSpec, Profile, ResizeSpec};
use crate::tape::{fnv, Tape};
use fast_image_resize as fr;
use fr::CpuExtensions;

pub static PROP: PropDef = PropDef {
    id: "C09",
    builds: opt_and_dbg,
    max_tape: 420,
    cases: |t| match t {
        Tier::Quick => 60_000,
        Tier::Thorough => 1_000_000,
    },
    fixed: no_fixed,
    check,
    rule: "tape -> a history of up to 12 operations on one long-lived Resizer: resize with independently drawn pixel type (pixel sizes 1..16 bytes), source/destination \
           sizes (so large-then-small and small-then-large both occur), algorithm (Nearest/Convolution/Interpolation/SuperSampling), alpha flag and crop; calls that must fail \
           (pixel-type mismatch, crop outside the image); reset_internal_buffers; clone (continuing on the clone or on the original); set_cpu_extensions. The whole history \
           shrinks as one tape. Oracle after every step: destination bytes and Result equal those of the same call on Resizer::new() with the same back-end; \
           size_of_internal_buffers() == 0 after a reset. Non-trivial = at least two successful resizes that use a scratch buffer (alpha, two passes or supersampling) with different \
           pixel sizes or a shrinking buffer requirement; distinct = the history's fingerprint.",
    assumptions: &[],
    exhaustive: not_exhaustive,
};

fn profile() -> Profile {
    let mut p = Profile::standard();
    p.allow_nearest = true;
    p.size_weights = [20, 110, 100, 20, 0];
    p.exts = vec![CpuExtensions::None];
    p.allow_custom = true;
    p
}

enum Op {
    Resize(ResizeSpec, Option<fr::PixelType>),
    Reset,
    Clone,
    Switch(usize),
    SetExt(CpuExtensions),
}

fn decode_history(t: &mut Tape) -> Vec<Op> {
    let n = 2 + t.below(11) as usize;
    let mut ops = Vec::new();
    let prof = profile();
    for _ in 0..n {
        if t.exhausted() && !ops.is_empty() {
            break;
        }
        match t.weighted(&[200, 16, 14, 14, 12]) {
            0 => {
                // either an independent call, or a near-repeat of the previous resize with one aspect changed
                // (same geometry with another algorithm family / filter / alpha flag / pixel type / crop origin):
                // state cached between calls under an incomplete key shows up only then
                let prev = ops.iter().rev().find_map(|o| match o {
                    Op::Resize(s, None) => Some(s.clone()),
                    _ => None,
                });
                let mut spec = match prev {
                    Some(mut ps) if t.chance(100) => {
                        match t.below(9) {
                            8 => {
                                // another custom kernel with the same name and support (they compare equal as `Filter`s)
                                let support = match ps.alg.filter() {
                                    Some(crate::spec::FilterSpec::Custom(c)) => c.support,
                                    _ => 2.0,
                                };
                                let mut c = crate::spec::decode_custom(t, false);
                                c.support = support;
                                let nf = crate::spec::FilterSpec::Custom(c);
                                ps.alg = match ps.alg {
                                    AlgSpec::Interp(_) => AlgSpec::Interp(nf),
                                    AlgSpec::Super(_, m) => AlgSpec::Super(nf, m),
                                    _ => AlgSpec::Conv(nf),
                                }
                            }
                            0 => {
                                ps.alg = match ps.alg {
                                    AlgSpec::Conv(f) => AlgSpec::Interp(f),
                                    AlgSpec::Interp(f) => AlgSpec::Super(f, 1 + t.below(3) as u8),
                                    AlgSpec::Super(f, _) => AlgSpec::Conv(f),
                                    AlgSpec::Nearest => AlgSpec::Conv(crate::spec::FilterSpec::Builtin(t.below(7) as u8)),
                                }
                            }
                            1 => {
                                let nf = crate::spec::FilterSpec::Builtin(t.below(7) as u8);
                                ps.alg = match ps.alg {
                                    AlgSpec::Conv(_) => AlgSpec::Conv(nf),
                                    AlgSpec::Interp(_) => AlgSpec::Interp(nf),
                                    AlgSpec::Super(_, m) => AlgSpec::Super(nf, m),
                                    AlgSpec::Nearest => AlgSpec::Nearest,
                                }
                            }
                            2 => ps.use_alpha = !ps.use_alpha,
                            3 => ps.pt = t.pick(&img::PT13),
                            4 => {
                                // move the crop window, keep its size
                                let (l, tp, w, h) = ps.crop_box();
                                let room_x = (ps.sw as f64 - w).max(0.0);
                                let room_y = (ps.sh as f64 - h).max(0.0);
                                let nl = (room_x * t.unit()).floor().min(room_x);
                                let nt = (room_y * t.unit()).floor().min(room_y);
                                let _ = (l, tp);
                                ps.crop = CropSpec::Box { l: nl, t: nt, w, h };
                            }
                            5 => ps.content.seed ^= 0x5555 + t.u16() as u64,
                            6 => ps.alg = AlgSpec::Nearest,
                            _ => {
                                ps.dw = (ps.dw + t.range(0, 2)).max(1);
                                ps.dh = (ps.dh + t.range(0, 2)).max(1);
                            }
                        }
                        ps
                    }
                    _ => {
                        let mut s = ResizeSpec::decode(t, &prof);
                        if t.chance(4) {
                            // one big call (> 8 MB of scratch data) so that later small calls meet big buffers
                            s.sw = 1100 + t.range(0, 200);
                            s.sh = 900 + t.range(0, 200);
                            s.dw = 280 + t.range(0, 40);
                            s.dh = 190 + t.range(0, 20);
                            s.crop = CropSpec::None;
                            s.pt = t.pick(&[fr::PixelType::U16x4, fr::PixelType::F32x4, fr::PixelType::U8x4, fr::PixelType::F32x3]);
                            s.use_alpha = true;
                            s.content.class = 1;
                        }
                        s
                    }
                };
                let mut dst_pt = None;
                match 15 - t.below(16) {
                    0 => {
                        spec.crop = CropSpec::Box {
                            l: 0.0,
                            t: 0.0,
                            w: spec.sw as f64 + 1.0,
                            h: spec.sh as f64,
                        }
                    }
                    1 => dst_pt = Some(img::PT13[(img::pt_index(spec.pt) + 1 + t.below(12) as usize) % 13]),
                    _ => {}
                }
                ops.push(Op::Resize(spec, dst_pt));
            }
            1 => ops.push(Op::Reset),
            2 => ops.push(Op::Clone),
            3 => ops.push(Op::Switch(t.below(4) as usize)),
            _ => ops.push(Op::SetExt(t.pick(&img::exts()))),
        }
    }
    ops
}

fn uses_scratch(spec: &ResizeSpec) -> bool {
    if spec.is_copy() || matches!(spec.alg, AlgSpec::Nearest) {
        return false;
    }
    let alpha = spec.use_alpha && img::has_alpha(spec.pt);
    let two_pass = spec.need_h() && spec.need_v();
    alpha || two_pass || matches!(spec.alg, AlgSpec::Super(_, _))
}

fn do_resize(r: &mut fr::Resizer, spec: &ResizeSpec, dst_pt: fr::PixelType, src: &[u8], sentinel: u8) -> Result<(Result<(), String>, Buf), String> {
    let len = spec.dw as usize * spec.dh as usize * dst_pt.size();
    let mut dst = Buf::new(len);
    dst.fill(sentinel);
    let opts = spec.options();
    let res = catch(|| {
        let s = fr::images::ImageRef::new(spec.sw, spec.sh, src, spec.pt).map_err(|e| format!("{:?}", e))?;
        let mut d = fr::images::Image::from_slice_u8(spec.dw, spec.dh, dst.bytes_mut(), dst_pt).map_err(|e| format!("{:?}", e))?;
        r.resize(&s, &mut d, &opts).map_err(|e| format!("{:?}", e))
    })?;
    Ok((res, dst))
}

fn check(tape: &[u8], _ctx: &Ctx) -> Outcome {
    let mut t = Tape::new(tape);
    let ops = decode_history(&mut t);
    let mut desc = String::new();
    let mut resizers: Vec<fr::Resizer> = vec![fr::Resizer::new()];
    let mut exts: Vec<CpuExtensions> = vec![resizers[0].cpu_extensions()];
    let mut cur = 0usize;
    let mut o = Outcome::new(String::new());
    let mut scratch_uses: Vec<(usize, u64)> = Vec::new(); // (pixel size, pixels needed)
    let mut n_resizes = 0;
    for (step, op) in ops.iter().enumerate() {
        match op {
            Op::Reset => {
                desc.push_str(&format!("[{}] reset_internal_buffers; ", step));
                resizers[cur].reset_internal_buffers();
                if resizers[cur].size_of_internal_buffers() != 0 {
                    o.desc = desc;
                    o.fail(format!(
                        "step {}: size_of_internal_buffers() = {} after reset_internal_buffers()",
                        step,
                        resizers[cur].size_of_internal_buffers()
                    ));
                    return o;
                }
                o.label("op:reset");
            }
            Op::Clone => {
                desc.push_str(&format!("[{}] clone (continue on the clone); ", step));
                if resizers.len() < 4 {
                    let c = resizers[cur].clone();
                    resizers.push(c);
                    exts.push(exts[cur]);
                    cur = resizers.len() - 1;
                }
                o.label("op:clone");
            }
            Op::Switch(i) => {
                cur = i % resizers.len();
                desc.push_str(&format!("[{}] switch to resizer #{}; ", step, cur));
                o.label("op:switch");
            }
            Op::SetExt(e) => {
                desc.push_str(&format!("[{}] set_cpu_extensions({}); ", step, img::ext_name(*e)));
                unsafe { resizers[cur].set_cpu_extensions(*e) };
                exts[cur] = *e;
                o.label("op:set-ext");
            }
            Op::Resize(spec, dst_pt) => {
                let dpt = dst_pt.unwrap_or(spec.pt);
                let mut spec = spec.clone();
                spec.ext = exts[cur];
                desc.push_str(&format!(
                    "[{}] resize {}{}; ",
                    step,
                    spec.desc(),
                    if dpt != spec.pt { format!(" into {}", img::pt_name(dpt)) } else { String::new() }
                ));
                let src = img::make_image(spec.pt, spec.sw, spec.sh, spec.content, Placement::Heap);
                let reused = do_resize(&mut resizers[cur], &spec, dpt, src.bytes(), 0xA5);
                let mut fresh_r = img::new_resizer(exts[cur]);
                let fresh = do_resize(&mut fresh_r, &spec, dpt, src.bytes(), 0xA5);
                o.desc = desc.clone();
                match (reused, fresh) {
                    (Err(p), Ok(_)) => {
                        o.fail(format!("step {}: the reused Resizer panicked ({}) but a fresh one did not", step, p));
                        return o;
                    }
                    (Err(p), Err(_)) => {
                        if matches!(spec.alg.filter(), Some(crate::spec::FilterSpec::Custom(_))) {
                            // a custom kernel outside the no-panic domain (C03's business): both panic alike
                            o.label("custom-kernel-panics-on-both");
                            continue;
                        }
                        o.fail(format!("step {}: panic on the reused and on a fresh Resizer: {}", step, p));
                        return o;
                    }
                    (Ok(_), Err(p)) => {
                        o.fail(format!("step {}: the fresh Resizer panicked: {}", step, p));
                        return o;
                    }
                    (Ok((r1, d1)), Ok((r2, d2))) => {
                        if r1 != r2 {
                            o.fail(format!("step {}: reused Resizer returned {:?}, a fresh one {:?}", step, r1, r2));
                            return o;
                        }
                        if let Some(i) = img::bytes_diff(d1.bytes(), d2.bytes()) {
                            let ps = dpt.size();
                            let px = i / ps;
                            o.fail(format!(
                                "step {}: destination pixel (x={}, y={}) differs between the reused Resizer and a fresh one ({:#04x} vs {:#04x})",
                                step,
                                px % spec.dw.max(1) as usize,
                                px / spec.dw.max(1) as usize,
                                d1.bytes()[i],
                                d2.bytes()[i]
                            ));
                            return o;
                        }
                        if r1.is_ok() {
                            n_resizes += 1;
                            if dst_pt.is_none() && uses_scratch(&spec) {
                                scratch_uses.push((spec.pt.size(), spec.sw as u64 * spec.sh as u64 + spec.dw as u64 * spec.dh as u64));
                            }
                            o.label("op:resize-ok");
                        } else {
                            o.label("op:resize-err");
                        }
                    }
                }
            }
        }
    }
    o.desc = desc;
    o.label(format!("history-length:{}", ops.len()));
    let mut nontrivial = false;
    for w in scratch_uses.windows(2) {
        if w[0].0 != w[1].0 || w[1].1 < w[0].1 {
            nontrivial = true;
        }
    }
    if nontrivial {
        o.label("scratch-reuse-across-types-or-shrink");
        o.nontrivial_key(fnv(o.desc.as_bytes()));
    }
    o.label_n("resizes", n_resizes);
    o
}
