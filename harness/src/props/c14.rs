//! C14 — splitting a view yields an exact, ordered, non-overlapping tiling.
use crate::img::Buf;
use crate::outcome::*;
use crate::runner::catch;
use crate::tape::{fnv, Tape};
use fast_image_resize as fr;
use fr::images::{TypedCroppedImage, TypedCroppedImageMut, TypedImage, TypedImageRef};
use fr::pixels::I32;
use fr::{ImageView, ImageViewMut};
use std::num::NonZeroU32;

pub static PROP: PropDef = PropDef {
    id: "C14",
    builds: opt_and_dbg,
    max_tape: 48,
    cases: |t| match t {
        Tier::Quick => 200_000,
        Tier::Thorough => 3_000_000,
    },
    fixed,
    check,
    rule: "enumeration (fixed tapes): every view kind {TypedImage, TypedImageRef, TypedCroppedImage over a reference / over an owned image, nested TypedCroppedImage, TypedCroppedImageMut read \
           through its shared interface, a user-defined view that only implements the required methods (so the traits' default split implementations run); \
           mutable: TypedImage, TypedCroppedImageMut, nested TypedCroppedImageMut, user-defined mutable view} x every view size 0..8 x 0..8 (0..32 thorough) x {split by height, by width} x every \
           (start, size, parts) with start in 0..extent+1, size in 1..extent+1, parts in 1..size+1 (so invalid triples are included), each valid split followed by a second split of every part \
           (split-of-split through the parts' own types). Generated tapes: views up to 40x24 with random triples and depth-3 compositions. Oracle: None <=> parts > size or size > extent or \
           start > extent - size; else exactly `parts` views in order, extents floor or ceil of size/parts summing to size, orthogonal extent unchanged, identity tags read through part k are the \
           band's pixels; through mutable parts every pixel is incremented once: the parent then shows tag+1 inside the band and tag outside (exactly-once coverage, no aliasing, nothing outside). \
           Every (kind, size, axis, triple) is one distinct non-trivial case.",
    assumptions: &["a view of width 0 exposes no pixels, so row counts are only compared for views of non-zero width"],
    exhaustive: |_| true,
};

const SHARED_KINDS: u8 = 7;
const MUT_KINDS: u8 = 4;

/// A user-defined view that implements only the required methods, so that the trait's default
/// `split_by_*` implementations are what gets tested.
struct UserView<'a> {
    w: u32,
    h: u32,
    px: &'a [I32],
}
unsafe impl<'a> ImageView for UserView<'a> {
    type Pixel = I32;
    fn width(&self) -> u32 {
        self.w
    }
    fn height(&self) -> u32 {
        self.h
    }
    fn iter_rows(&self, start_row: u32) -> impl Iterator<Item = &[I32]> {
        let w = self.w as usize;
        self.px
            .chunks_exact(w.max(1))
            .take(if w == 0 { 0 } else { self.h as usize })
            .skip(start_row as usize)
    }
}
struct UserViewMut<'a> {
    w: u32,
    h: u32,
    px: &'a mut [I32],
}
unsafe impl<'a> ImageView for UserViewMut<'a> {
    type Pixel = I32;
    fn width(&self) -> u32 {
        self.w
    }
    fn height(&self) -> u32 {
        self.h
    }
    fn iter_rows(&self, start_row: u32) -> impl Iterator<Item = &[I32]> {
        let w = self.w as usize;
        self.px
            .chunks_exact(w.max(1))
            .take(if w == 0 { 0 } else { self.h as usize })
            .skip(start_row as usize)
    }
}
unsafe impl<'a> ImageViewMut for UserViewMut<'a> {
    fn iter_rows_mut(&mut self, start_row: u32) -> impl Iterator<Item = &mut [I32]> {
        let w = self.w as usize;
        let h = self.h as usize;
        self.px
            .chunks_exact_mut(w.max(1))
            .take(if w == 0 { 0 } else { h })
            .skip(start_row as usize)
    }
}

fn pixels_of(bytes: &[u8]) -> &[I32] {
    let (_, mid, _) = unsafe { bytes.align_to::<I32>() };
    mid
}
fn pixels_of_mut(bytes: &mut [u8]) -> &mut [I32] {
    let (_, mid, _) = unsafe { bytes.align_to_mut::<I32>() };
    mid
}

fn fixed(tier: Tier) -> Vec<Vec<u8>> {
    let max = if tier == Tier::Thorough { 32 } else { 8 };
    let mut v = Vec::new();
    // views of extent u32::MAX x 0 / 0 x u32::MAX (no pixels, no memory): part-size arithmetic at the top of the range
    for kind in [1u8, 2, 6] {
        for code in [250u8, 251] {
            v.push(vec![0xEE, 0, kind, code, 0, 0xEE]);
        }
    }
    for m in 0..2u8 {
        let kinds = if m == 0 { SHARED_KINDS } else { MUT_KINDS };
        for k in 0..kinds {
            for w in 0..=max {
                for h in 0..=max {
                    v.push(vec![0xEE, m, k, w, h, 0xEE]);
                }
            }
        }
    }
    v
}

fn nz(v: u32) -> NonZeroU32 {
    NonZeroU32::new(v.max(1)).unwrap()
}

/// model: is (start, size, parts) a valid request on an extent?
fn valid(extent: u32, start: u32, size: u32, parts: u32) -> bool {
    parts >= 1 && size >= 1 && parts <= size && size <= extent && start <= extent - size
}

#[derive(Clone, Copy, Debug)]
struct Geo {
    /// absolute origin of the view in parent coordinates, parent width
    ox: u32,
    oy: u32,
    pw: u32,
    w: u32,
    h: u32,
}

#[derive(Clone, Copy, Debug)]
struct Req {
    by_width: bool,
    start: u32,
    size: u32,
    parts: u32,
}

impl Req {
    fn desc(&self) -> String {
        format!(
            "split_by_{}(start {}, size {}, parts {})",
            if self.by_width { "width" } else { "height" },
            self.start,
            self.size,
            self.parts
        )
    }
}

/// Checks sizes / order / tags of shared parts; returns the geometry of every part.
fn verify_parts<V: ImageView<Pixel = I32>>(parts: &[V], g: &Geo, r: &Req) -> Result<Vec<Geo>, String> {
    if parts.len() != r.parts as usize {
        return Err(format!("{} parts returned instead of {}", parts.len(), r.parts));
    }
    let lo = r.size / r.parts;
    let hi = lo + if r.size % r.parts != 0 { 1 } else { 0 };
    let mut pos = r.start;
    let mut out = Vec::with_capacity(parts.len());
    for (k, p) in parts.iter().enumerate() {
        let (ext, orth, want_orth) = if r.by_width {
            (p.width(), p.height(), g.h)
        } else {
            (p.height(), p.width(), g.w)
        };
        if orth != want_orth {
            return Err(format!("part {} has orthogonal extent {} instead of {}", k, orth, want_orth));
        }
        if ext != lo && ext != hi {
            return Err(format!("part {} has extent {} which is neither {} nor {}", k, ext, lo, hi));
        }
        let pg = if r.by_width {
            Geo { ox: g.ox + pos, oy: g.oy, pw: g.pw, w: ext, h: g.h }
        } else {
            Geo { ox: g.ox, oy: g.oy + pos, pw: g.pw, w: g.w, h: ext }
        };
        // pixels
        let mut rows = 0u32;
        for (y, row) in p.iter_rows(0).enumerate() {
            if y as u32 >= pg.h {
                return Err(format!("part {} yields more than {} rows", k, pg.h));
            }
            if row.len() != pg.w as usize {
                return Err(format!("part {} row {} has {} pixels instead of {}", k, y, row.len(), pg.w));
            }
            for (x, px) in row.iter().enumerate() {
                let want = (pg.oy as i64 + y as i64) * pg.pw as i64 + pg.ox as i64 + x as i64;
                if px.0 as i64 != want {
                    return Err(format!(
                        "part {} pixel ({}, {}) is parent tag {} instead of {} (parent pixel ({}, {}))",
                        k,
                        x,
                        y,
                        px.0,
                        want,
                        pg.ox as usize + x,
                        pg.oy as usize + y
                    ));
                }
            }
            rows += 1;
        }
        if pg.w > 0 && rows != pg.h {
            return Err(format!("part {} yields {} rows instead of {}", k, rows, pg.h));
        }
        out.push(pg);
        pos += ext;
    }
    if pos - r.start != r.size {
        return Err(format!("parts cover {} instead of {}", pos - r.start, r.size));
    }
    Ok(out)
}

fn second_level_reqs(g: &Geo) -> Vec<Req> {
    let mut v = Vec::new();
    for by_width in [false, true] {
        let extent = if by_width { g.w } else { g.h };
        if extent == 0 {
            v.push(Req { by_width, start: 0, size: 1, parts: 1 });
            continue;
        }
        v.push(Req { by_width, start: 0, size: extent, parts: extent.min(2) });
        if extent > 1 {
            v.push(Req { by_width, start: 1, size: extent - 1, parts: extent - 1 });
        }
    }
    v
}

/// One split request on a shared view, verified; `depth` more levels on every part.
fn shared_level<V: ImageView<Pixel = I32>>(v: &V, g: &Geo, r: &Req, depth: u32, count: &mut u64) -> Result<(), String> {
    let extent = if r.by_width { g.w } else { g.h };
    let ok = valid(extent, r.start, r.size, r.parts);
    *count += 1;
    macro_rules! handle {
        ($res:expr) => {{
            match $res {
                None => {
                    if ok {
                        return Err(format!("{} on a {}x{} view returned None for a valid request", r.desc(), g.w, g.h));
                    }
                }
                Some(parts) => {
                    if !ok {
                        return Err(format!(
                            "{} on a {}x{} view returned {} parts for an invalid request",
                            r.desc(),
                            g.w,
                            g.h,
                            parts.len()
                        ));
                    }
                    let geos = verify_parts(&parts, g, r).map_err(|e| format!("{} on a {}x{} view: {}", r.desc(), g.w, g.h, e))?;
                    if depth > 0 {
                        for (p, pg) in parts.iter().zip(&geos) {
                            for r2 in second_level_reqs(pg) {
                                shared_leaf(p, pg, &r2, count).map_err(|e| format!("after {}: part at ({},{}) {}x{}: {}", r.desc(), pg.ox, pg.oy, pg.w, pg.h, e))?;
                            }
                        }
                    }
                }
            }
        }};
    }
    if r.by_width {
        handle!(v.split_by_width(r.start, nz(r.size), nz(r.parts)));
    } else {
        handle!(v.split_by_height(r.start, nz(r.size), nz(r.parts)));
    }
    Ok(())
}

/// Last level (no further recursion, keeps monomorphisation finite).
fn shared_leaf<V: ImageView<Pixel = I32>>(v: &V, g: &Geo, r: &Req, count: &mut u64) -> Result<(), String> {
    let extent = if r.by_width { g.w } else { g.h };
    let ok = valid(extent, r.start, r.size, r.parts);
    *count += 1;
    macro_rules! handle {
        ($res:expr) => {{
            match $res {
                None => {
                    if ok {
                        return Err(format!("{} on a {}x{} view returned None for a valid request", r.desc(), g.w, g.h));
                    }
                }
                Some(parts) => {
                    if !ok {
                        return Err(format!("{} on a {}x{} view returned parts for an invalid request", r.desc(), g.w, g.h));
                    }
                    verify_parts(&parts, g, r).map_err(|e| format!("{} on a {}x{} view: {}", r.desc(), g.w, g.h, e))?;
                }
            }
        }};
    }
    if r.by_width {
        handle!(v.split_by_width(r.start, nz(r.size), nz(r.parts)));
    } else {
        handle!(v.split_by_height(r.start, nz(r.size), nz(r.parts)));
    }
    Ok(())
}

fn inc_all<V: ImageViewMut<Pixel = I32>>(v: &mut V) {
    for row in v.iter_rows_mut(0) {
        for p in row.iter_mut() {
            p.0 = p.0.wrapping_add(1);
        }
    }
}

/// Split a mutable view, increment every pixel through the parts (optionally through a second split).
fn mut_level<V: ImageViewMut<Pixel = I32>>(v: &mut V, g: &Geo, r: &Req, second: Option<bool>, count: &mut u64) -> Result<bool, String> {
    let extent = if r.by_width { g.w } else { g.h };
    let ok = valid(extent, r.start, r.size, r.parts);
    *count += 1;
    macro_rules! handle {
        ($res:expr) => {{
            match $res {
                None => {
                    if ok {
                        return Err(format!("{}_mut on a {}x{} view returned None for a valid request", r.desc(), g.w, g.h));
                    }
                    Ok(false)
                }
                Some(mut parts) => {
                    if !ok {
                        return Err(format!("{}_mut on a {}x{} view returned parts for an invalid request", r.desc(), g.w, g.h));
                    }
                    let geos = verify_parts(&parts, g, r).map_err(|e| format!("{}_mut on a {}x{} view: {}", r.desc(), g.w, g.h, e))?;
                    for (p, pg) in parts.iter_mut().zip(&geos) {
                        match second {
                            None => inc_all(p),
                            Some(bw) => {
                                let e2 = if bw { pg.w } else { pg.h };
                                if e2 == 0 {
                                    inc_all(p);
                                } else {
                                    let r2 = Req { by_width: bw, start: 0, size: e2, parts: e2.min(3) };
                                    mut_leaf(p, pg, &r2, count).map_err(|e| format!("after {}_mut: part at ({},{}) {}x{}: {}", r.desc(), pg.ox, pg.oy, pg.w, pg.h, e))?;
                                }
                            }
                        }
                    }
                    Ok(true)
                }
            }
        }};
    }
    if r.by_width {
        handle!(v.split_by_width_mut(r.start, nz(r.size), nz(r.parts)))
    } else {
        handle!(v.split_by_height_mut(r.start, nz(r.size), nz(r.parts)))
    }
}

fn mut_leaf<V: ImageViewMut<Pixel = I32>>(v: &mut V, g: &Geo, r: &Req, count: &mut u64) -> Result<(), String> {
    *count += 1;
    macro_rules! handle {
        ($res:expr) => {{
            match $res {
                None => Err(format!("{}_mut on a {}x{} part returned None for a valid request", r.desc(), g.w, g.h)),
                Some(mut parts) => {
                    verify_parts(&parts, g, r).map_err(|e| format!("{}_mut on a {}x{} part: {}", r.desc(), g.w, g.h, e))?;
                    for p in parts.iter_mut() {
                        inc_all(p);
                    }
                    Ok(())
                }
            }
        }};
    }
    if r.by_width {
        handle!(v.split_by_width_mut(r.start, nz(r.size), nz(r.parts)))
    } else {
        handle!(v.split_by_height_mut(r.start, nz(r.size), nz(r.parts)))
    }
}

fn tagged(pw: u32, ph: u32) -> Buf {
    let n = pw as usize * ph as usize;
    let mut b = Buf::new(n * 4);
    for i in 0..n {
        b.bytes_mut()[4 * i..4 * i + 4].copy_from_slice(&(i as i32).to_ne_bytes());
    }
    b
}

fn check_parent_after(parent: &Buf, pw: u32, ph: u32, g: &Geo, r: &Req, touched: bool) -> Result<(), String> {
    let b = parent.bytes();
    for y in 0..ph {
        for x in 0..pw {
            let i = (y * pw + x) as usize;
            let v = i32::from_ne_bytes(b[4 * i..4 * i + 4].try_into().unwrap());
            let in_view = x >= g.ox && x < g.ox + g.w && y >= g.oy && y < g.oy + g.h;
            let in_band = touched
                && in_view
                && if r.by_width {
                    x - g.ox >= r.start && x - g.ox < r.start + r.size
                } else {
                    y - g.oy >= r.start && y - g.oy < r.start + r.size
                };
            let want = i as i32 + if in_band { 1 } else { 0 };
            if v != want {
                return Err(format!(
                    "after incrementing every pixel once through the parts of {}: parent pixel ({}, {}) is tag{:+} instead of tag{:+} ({})",
                    r.desc(),
                    x,
                    y,
                    v as i64 - i as i64,
                    want as i64 - i as i64,
                    if in_band { "inside the band" } else { "outside the band" }
                ));
            }
        }
    }
    Ok(())
}

/// geometry of the view of size (w,h) for a kind: (pw, ph, ox, oy)
fn placement(mutable: bool, kind: u8, w: u32, h: u32) -> (u32, u32, u32, u32) {
    let cropped = if mutable { kind == 1 || kind == 2 } else { (2..=5).contains(&kind) };
    let nested = if mutable { kind == 2 } else { kind == 4 };
    if nested {
        (w + 4, h + 4, 2, 2)
    } else if cropped {
        (w + 2, h + 2, 1, 1)
    } else {
        (w, h, 0, 0)
    }
}

const SHARED_NAMES: [&str; 7] = [
    "TypedImage",
    "TypedImageRef",
    "TypedCroppedImage<&TypedImageRef>",
    "TypedCroppedImage<TypedImage>",
    "nested TypedCroppedImage",
    "TypedCroppedImageMut (shared interface)",
    "user-defined ImageView (default split implementations)",
];
const MUT_NAMES: [&str; 4] = [
    "TypedImage",
    "TypedCroppedImageMut<&mut TypedImage>",
    "nested TypedCroppedImageMut",
    "user-defined ImageViewMut (default split implementations)",
];

fn with_shared_view(kind: u8, w: u32, h: u32, f: &mut dyn FnMut(&dyn SharedRunner, &Geo) -> Result<(), String>) -> Result<(), String> {
    let (pw, ph, ox, oy) = placement(false, kind, w, h);
    let mut parent = tagged(pw, ph);
    let g = Geo { ox, oy, pw, w, h };
    let e = |x: String| x;
    match kind {
        0 => {
            let v = TypedImage::<I32>::from_buffer(pw, ph, parent.bytes_mut()).map_err(|x| e(format!("{:?}", x)))?;
            f(&Holder(&v), &g)
        }
        1 => {
            let v = TypedImageRef::<I32>::from_buffer(pw, ph, parent.bytes()).map_err(|x| format!("{:?}", x))?;
            f(&Holder(&v), &g)
        }
        2 => {
            let p = TypedImageRef::<I32>::from_buffer(pw, ph, parent.bytes()).map_err(|x| format!("{:?}", x))?;
            let v = TypedCroppedImage::from_ref(&p, ox, oy, w, h).map_err(|x| format!("{:?}", x))?;
            f(&Holder(&v), &g)
        }
        3 => {
            let p = TypedImage::<I32>::from_buffer(pw, ph, parent.bytes_mut()).map_err(|x| format!("{:?}", x))?;
            let v = TypedCroppedImage::new(p, ox, oy, w, h).map_err(|x| format!("{:?}", x))?;
            f(&Holder(&v), &g)
        }
        4 => {
            let p = TypedImageRef::<I32>::from_buffer(pw, ph, parent.bytes()).map_err(|x| format!("{:?}", x))?;
            let c1 = TypedCroppedImage::from_ref(&p, 1, 1, w + 2, h + 2).map_err(|x| format!("{:?}", x))?;
            let v = TypedCroppedImage::new(c1, 1, 1, w, h).map_err(|x| format!("{:?}", x))?;
            f(&Holder(&v), &g)
        }
        5 => {
            let p = TypedImage::<I32>::from_buffer(pw, ph, parent.bytes_mut()).map_err(|x| format!("{:?}", x))?;
            let v = TypedCroppedImageMut::new(p, ox, oy, w, h).map_err(|x| format!("{:?}", x))?;
            f(&Holder(&v), &g)
        }
        _ => {
            let v = UserView { w: pw, h: ph, px: pixels_of(parent.bytes()) };
            f(&Holder(&v), &g)
        }
    }
}

/// Object-safe wrapper so that the enumeration loop is written once.
trait SharedRunner {
    fn run(&self, g: &Geo, r: &Req, depth: u32, count: &mut u64) -> Result<(), String>;
}
struct Holder<'a, V>(&'a V);
impl<'a, V: ImageView<Pixel = I32>> SharedRunner for Holder<'a, V> {
    fn run(&self, g: &Geo, r: &Req, depth: u32, count: &mut u64) -> Result<(), String> {
        shared_level(self.0, g, r, depth, count)
    }
}

/// Runs one mutable request from a fresh tagged parent and verifies the parent afterwards.
fn run_mut_case(kind: u8, w: u32, h: u32, r: &Req, second: Option<bool>, count: &mut u64) -> Result<(), String> {
    let (pw, ph, ox, oy) = placement(true, kind, w, h);
    let mut parent = tagged(pw, ph);
    let g = Geo { ox, oy, pw, w, h };
    let touched = {
        match kind {
            0 => {
                let mut v = TypedImage::<I32>::from_buffer(pw, ph, parent.bytes_mut()).map_err(|x| format!("{:?}", x))?;
                mut_level(&mut v, &g, r, second, count)?
            }
            1 => {
                let mut p = TypedImage::<I32>::from_buffer(pw, ph, parent.bytes_mut()).map_err(|x| format!("{:?}", x))?;
                let mut v = TypedCroppedImageMut::from_ref(&mut p, ox, oy, w, h).map_err(|x| format!("{:?}", x))?;
                mut_level(&mut v, &g, r, second, count)?
            }
            2 => {
                let mut p = TypedImage::<I32>::from_buffer(pw, ph, parent.bytes_mut()).map_err(|x| format!("{:?}", x))?;
                let c1 = TypedCroppedImageMut::from_ref(&mut p, 1, 1, w + 2, h + 2).map_err(|x| format!("{:?}", x))?;
                let mut v = TypedCroppedImageMut::new(c1, 1, 1, w, h).map_err(|x| format!("{:?}", x))?;
                mut_level(&mut v, &g, r, second, count)?
            }
            _ => {
                let mut v = UserViewMut { w: pw, h: ph, px: pixels_of_mut(parent.bytes_mut()) };
                mut_level(&mut v, &g, r, second, count)?
            }
        }
    };
    check_parent_after(&parent, pw, ph, &g, r, touched)
}

fn all_reqs(w: u32, h: u32) -> Vec<Req> {
    let mut v = Vec::new();
    for by_width in [false, true] {
        let extent = if by_width { w } else { h };
        // arguments at the top of the u32 range (always invalid on these small views)
        for (start, size, parts) in [
            (u32::MAX, 1, 1),
            (u32::MAX - 1, 2, 1),
            (1 << 31, extent.max(1), 1),
            (0, u32::MAX, 1),
            (1, u32::MAX, 2),
            (0, extent.max(1), u32::MAX),
            (u32::MAX, u32::MAX, u32::MAX),
            (u32::MAX - extent, extent.max(1), 1),
        ] {
            v.push(Req { by_width, start, size, parts });
        }
        for size in 1..=extent + 1 {
            for start in 0..=extent + 1 {
                for parts in 1..=size + 1 {
                    v.push(Req { by_width, start, size, parts });
                }
            }
        }
    }
    v
}

fn literal(mutable: bool, kind: u8, w: u32, h: u32, r: &Req, second: u8) -> Vec<u8> {
    vec![
        0xED,
        mutable as u8,
        kind,
        w as u8,
        h as u8,
        r.by_width as u8,
        r.start.min(255) as u8,
        r.size.min(255) as u8,
        r.parts.min(255) as u8,
        second,
        0xED,
    ]
}

fn enumerate(mutable: bool, kind: u8, w: u32, h: u32) -> Outcome {
    let name = if mutable { MUT_NAMES[kind as usize % 4] } else { SHARED_NAMES[kind as usize % 7] };
    let mut o = Outcome::new(format!(
        "all (axis, start, size, parts) on a {}x{} {} view{}",
        w,
        h,
        name,
        if mutable { " (mutable splits, exactly-once increments)" } else { " (shared splits + split-of-split)" }
    ));
    o.evals = 0;
    let reqs = all_reqs(w, h);
    let mut count = 0u64;
    if !mutable {
        let res = catch(|| {
            with_shared_view(kind, w, h, &mut |runner, g| {
                for r in &reqs {
                    if let Err(e) = catch(|| runner.run(g, r, 1, &mut count)).unwrap_or_else(|p| Err(format!("panic: {}", p))) {
                        return Err(format!("{}|{}", r.start as u64 | (r.size as u64) << 16 | (r.parts as u64) << 32 | (r.by_width as u64) << 48, e));
                    }
                }
                Ok(())
            })
        });
        match res {
            Ok(Ok(())) => {}
            Ok(Err(e)) => {
                let (code, msg) = e.split_once('|').unwrap_or(("0", &e));
                let code: u64 = code.parse().unwrap_or(0);
                let r = Req {
                    by_width: code >> 48 & 1 == 1,
                    start: (code & 0xFFFF) as u32,
                    size: (code >> 16 & 0xFFFF) as u32,
                    parts: (code >> 32 & 0xFFFF) as u32,
                };
                o.fail(format!("{} {}x{}: {}", name, w, h, msg));
                o.repro = Some(literal(false, kind, w, h, &r, 1));
            }
            Err(p) => o.fail(format!("{} {}x{}: panic: {}", name, w, h, p)),
        }
    } else {
        'outer: for r in &reqs {
            for second in [None, Some(false), Some(true)] {
                let extent = if r.by_width { w } else { h };
                if second.is_some() && !valid(extent, r.start, r.size, r.parts) {
                    continue;
                }
                let res = catch(|| run_mut_case(kind, w, h, r, second, &mut count));
                let err = match res {
                    Ok(Ok(())) => None,
                    Ok(Err(e)) => Some(e),
                    Err(p) => Some(format!("panic: {}", p)),
                };
                if let Some(e) = err {
                    o.fail(format!("{} {}x{}: {}{}", name, w, h, r.desc(), format!(": {}", e)));
                    o.repro = Some(literal(
                        true,
                        kind,
                        w,
                        h,
                        r,
                        match second {
                            None => 0,
                            Some(false) => 1,
                            Some(true) => 2,
                        },
                    ));
                    break 'outer;
                }
            }
        }
    }
    o.evals = count;
    o.bulk_nontrivial = count;
    o.label_n(format!("enumerated:{}", if mutable { "mut" } else { "shared" }), count);
    o
}

/// Views without pixels whose height (or width) is u32::MAX: sizes, order and count of the parts for bands at the top of the range.
fn enumerate_extreme(kind: u8, tall: bool) -> Outcome {
    let (w, h) = if tall { (0, u32::MAX) } else { (u32::MAX, 0) };
    let name = SHARED_NAMES[kind as usize % 7];
    let mut o = Outcome::new(format!("splits of a {}x{} {} view (no pixels): bands and part counts at the top of the u32 range", w, h, name));
    o.evals = 0;
    let m = u32::MAX;
    let mut reqs = Vec::new();
    for parts in [1u32, 2, 3, 5, 64, 255, 1000] {
        for size in [m, m - 1, m - parts + 1, m - parts, m / 2 + 1, 1 << 31, parts, parts + 1] {
            for start in [0u32, 1, m.wrapping_sub(size), m.wrapping_sub(size).wrapping_add(1), m] {
                if size >= 1 {
                    reqs.push(Req { by_width: !tall, start, size, parts });
                }
            }
        }
    }
    let mut count = 0u64;
    let empty: [I32; 0] = [];
    let res = catch(|| -> Result<(), String> {
        let g = Geo { ox: 0, oy: 0, pw: w, w, h };
        for r in &reqs {
            let one = match kind {
                1 => {
                    let v = TypedImageRef::<I32>::new(w, h, &empty).map_err(|e| format!("{:?}", e))?;
                    catch(|| shared_leaf(&v, &g, r, &mut count)).unwrap_or_else(|p| Err(format!("panic: {}", p)))
                }
                2 => {
                    let p = TypedImageRef::<I32>::new(w, h, &empty).map_err(|e| format!("{:?}", e))?;
                    let v = TypedCroppedImage::from_ref(&p, 0, 0, w, h).map_err(|e| format!("{:?}", e))?;
                    catch(|| shared_leaf(&v, &g, r, &mut count)).unwrap_or_else(|p| Err(format!("panic: {}", p)))
                }
                _ => {
                    let v = UserView { w, h, px: &empty };
                    catch(|| shared_leaf(&v, &g, r, &mut count)).unwrap_or_else(|p| Err(format!("panic: {}", p)))
                }
            };
            one.map_err(|e| format!("{} on the {}x{} {} view: {}", r.desc(), w, h, name, e))?;
        }
        Ok(())
    });
    match res {
        Ok(Ok(())) => {}
        Ok(Err(e)) => o.fail(e),
        Err(p) => o.fail(format!("panic: {}", p)),
    }
    o.evals = count;
    o.bulk_nontrivial = count;
    o.label_n("enumerated:extreme-extent", count);
    o
}

fn single(mutable: bool, kind: u8, w: u32, h: u32, r: Req, second: u8, depth: u32) -> Outcome {
    let name = if mutable { MUT_NAMES[kind as usize % 4] } else { SHARED_NAMES[kind as usize % 7] };
    let mut o = Outcome::new(format!(
        "{} on a {}x{} {} view{}",
        r.desc(),
        w,
        h,
        name,
        if mutable {
            match second {
                0 => " (mutable)",
                1 => " (mutable, parts split again by height)",
                _ => " (mutable, parts split again by width)",
            }
        } else {
            " (shared, parts split again)"
        }
    ));
    let mut count = 0u64;
    let res = if mutable {
        let sec = match second {
            0 => None,
            1 => Some(false),
            _ => Some(true),
        };
        catch(|| run_mut_case(kind % MUT_KINDS, w, h, &r, sec, &mut count))
    } else {
        catch(|| with_shared_view(kind % SHARED_KINDS, w, h, &mut |runner, g| runner.run(g, &r, depth, &mut count)))
    };
    match res {
        Ok(Ok(())) => {}
        Ok(Err(e)) => o.fail(e),
        Err(p) => o.fail(format!("panic: {}", p)),
    }
    o.evals = count.max(1);
    o.label(format!("random:{}", if mutable { "mut" } else { "shared" }));
    o.nontrivial_key(fnv(format!("{}|{}|{}|{}|{:?}|{}", mutable, kind, w, h, r, second).as_bytes()));
    o
}

fn check(tape: &[u8], _ctx: &Ctx) -> Outcome {
    if tape.len() == 6 && tape[0] == 0xEE && tape[5] == 0xEE && tape[1] == 0 && (tape[3] == 250 || tape[3] == 251) && tape[2] < SHARED_KINDS {
        return enumerate_extreme(tape[2], tape[3] == 250);
    }
    if tape.len() == 6 && tape[0] == 0xEE && tape[5] == 0xEE && tape[1] < 2 && tape[3] <= 32 && tape[4] <= 32 {
        let mutable = tape[1] == 1;
        let kinds = if mutable { MUT_KINDS } else { SHARED_KINDS };
        if tape[2] < kinds {
            return enumerate(mutable, tape[2], tape[3] as u32, tape[4] as u32);
        }
    }
    if tape.len() == 11 && tape[0] == 0xED && tape[10] == 0xED {
        let r = Req {
            by_width: tape[5] & 1 == 1,
            start: tape[6] as u32,
            size: tape[7] as u32,
            parts: tape[8] as u32,
        };
        return single(tape[1] & 1 == 1, tape[2], (tape[3] as u32).min(64), (tape[4] as u32).min(64), r, tape[9] % 3, 1);
    }
    let mut t = Tape::new(tape);
    let mutable = t.bool();
    let kind = t.below(if mutable { MUT_KINDS as u32 } else { SHARED_KINDS as u32 }) as u8;
    let w = if t.chance(40) { t.range(0, 2) } else { t.range(0, 40) };
    let h = if t.chance(40) { t.range(0, 2) } else { t.range(0, 24) };
    let by_width = t.bool();
    let extent = if by_width { w } else { h };
    let size = match t.below(4) {
        0 => extent.max(1),
        1 => extent + 1,
        _ => t.range(1, extent.max(1)),
    };
    let start = match t.below(4) {
        0 => 0,
        1 => extent.saturating_sub(size),
        2 => extent.saturating_sub(size) + 1,
        _ => t.range(0, extent),
    };
    let parts = match t.below(4) {
        0 => 1,
        1 => size,
        2 => size + 1,
        _ => t.range(1, size),
    };
    let second = t.below(3) as u8;
    single(mutable, kind, w, h, Req { by_width, start, size, parts }, second, 1)
}
