//! Parent driver (proptest TestRunner over tapes, worker subprocesses, watchdog,
//! evidence, replay) and the worker loop.
use crate::outcome::{Build, Ctx, Outcome, PropDef, Tier};
use crate::tape::{fnv, hex, unhex};
use proptest::test_runner::{Config, RngSeed, TestCaseError, TestError, TestRunner};
use serde_json::{json, Value};
use std::collections::{BTreeMap, HashSet, VecDeque};
use std::io::{Read, Write};
use std::process::{Child, ChildStdin, Command, Stdio};
use std::sync::atomic::{AtomicBool, AtomicU64, Ordering};
use std::sync::mpsc::{channel, Receiver, RecvTimeoutError};
use std::sync::{Arc, Mutex};
use std::time::{Duration, Instant};

pub fn verif_dir() -> String {
    std::env::var("FIRV_VERIF_DIR").unwrap_or_else(|_| "/verif".to_string())
}
pub fn harness_dir() -> String {
    format!("{}/harness", verif_dir())
}

const WATCHDOG: Duration = Duration::from_secs(120);

// ---------------------------------------------------------------- worker side

static LAST_PANIC: Mutex<Option<String>> = Mutex::new(None);

pub fn install_panic_hook() {
    std::panic::set_hook(Box::new(|info| {
        let msg = if let Some(s) = info.payload().downcast_ref::<&str>() {
            s.to_string()
        } else if let Some(s) = info.payload().downcast_ref::<String>() {
            s.clone()
        } else {
            "<non-string panic>".to_string()
        };
        let loc = info
            .location()
            .map(|l| format!("{}:{}", l.file(), l.line()))
            .unwrap_or_default();
        if let Ok(mut g) = LAST_PANIC.lock() {
            if g.is_none() {
                *g = Some(format!("{} at {}", msg, loc));
            }
        }
    }));
}

pub fn take_panic() -> Option<String> {
    LAST_PANIC.lock().ok().and_then(|mut g| g.take())
}

/// Runs `f`, converting a panic into `Err(message)`.
pub fn catch<T>(f: impl FnOnce() -> T) -> Result<T, String> {
    let _ = take_panic();
    match std::panic::catch_unwind(std::panic::AssertUnwindSafe(f)) {
        Ok(v) => Ok(v),
        Err(_) => Err(take_panic().unwrap_or_else(|| "<panic>".to_string())),
    }
}

pub fn check_in_process(prop: &PropDef, tape: &[u8], ctx: &Ctx) -> Outcome {
    match catch(|| (prop.check)(tape, ctx)) {
        Ok(o) => o,
        Err(msg) => {
            let mut o = Outcome::new(format!("tape {}", hex(tape)));
            o.fail(format!("harness-level panic (uncaught inside check): {}", msg));
            o
        }
    }
}

pub fn worker_main(prop: &PropDef, tier: Tier) -> i32 {
    install_panic_hook();
    let known: Vec<String> = std::env::var("FIRV_KNOWN")
        .unwrap_or_default()
        .split(',')
        .filter(|s| !s.is_empty())
        .map(|s| s.to_string())
        .collect();
    let ctx = Ctx {
        build: Build::current(),
        tier,
        known,
    };
    let stdin = std::io::stdin();
    let stdout = std::io::stdout();
    let mut inp = stdin.lock();
    let mut out = stdout.lock();
    loop {
        let mut lenb = [0u8; 4];
        if inp.read_exact(&mut lenb).is_err() {
            return 0;
        }
        let len = u32::from_le_bytes(lenb) as usize;
        let mut tape = vec![0u8; len];
        if inp.read_exact(&mut tape).is_err() {
            return 0;
        }
        let o = check_in_process(prop, &tape, &ctx);
        let payload = o.to_json().to_string().into_bytes();
        if out.write_all(&(payload.len() as u32).to_le_bytes()).is_err()
            || out.write_all(&payload).is_err()
            || out.flush().is_err()
        {
            return 0;
        }
    }
}

// ---------------------------------------------------------------- parent side

struct WorkerHandle {
    build: Build,
    child: Child,
    stdin: ChildStdin,
    rx: Receiver<Option<Vec<u8>>>,
}

enum Reply {
    Outcome(Outcome),
    Died(String),
    Hung,
}

fn spawn_worker(prop_id: &str, build: Build, tier: Tier, known: &[String]) -> std::io::Result<WorkerHandle> {
    let bin = format!("{}/{}", harness_dir(), build.binary());
    let mut child = Command::new(&bin)
        .arg("worker")
        .arg(prop_id)
        .arg(tier.name())
        .env("FIRV_KNOWN", known.join(","))
        .env("RUST_BACKTRACE", "0")
        .stdin(Stdio::piped())
        .stdout(Stdio::piped())
        .stderr(Stdio::null())
        .spawn()?;
    let stdin = child.stdin.take().unwrap();
    let mut stdout = child.stdout.take().unwrap();
    let (tx, rx) = channel();
    std::thread::spawn(move || loop {
        let mut lenb = [0u8; 4];
        if stdout.read_exact(&mut lenb).is_err() {
            let _ = tx.send(None);
            return;
        }
        let len = u32::from_le_bytes(lenb) as usize;
        let mut buf = vec![0u8; len];
        if stdout.read_exact(&mut buf).is_err() {
            let _ = tx.send(None);
            return;
        }
        if tx.send(Some(buf)).is_err() {
            return;
        }
    });
    Ok(WorkerHandle {
        build,
        child,
        stdin,
        rx,
    })
}

impl WorkerHandle {
    fn request(&mut self, tape: &[u8]) -> Reply {
        let mut msg = Vec::with_capacity(tape.len() + 4);
        msg.extend_from_slice(&(tape.len() as u32).to_le_bytes());
        msg.extend_from_slice(tape);
        if self.stdin.write_all(&msg).is_err() || self.stdin.flush().is_err() {
            return Reply::Died(self.exit_reason());
        }
        match self.rx.recv_timeout(WATCHDOG) {
            Ok(Some(buf)) => match serde_json::from_slice::<Value>(&buf)
                .ok()
                .and_then(|v| Outcome::from_json(&v))
            {
                Some(o) => Reply::Outcome(o),
                None => Reply::Died("worker sent an undecodable reply".to_string()),
            },
            Ok(None) | Err(RecvTimeoutError::Disconnected) => Reply::Died(self.exit_reason()),
            Err(RecvTimeoutError::Timeout) => {
                let _ = self.child.kill();
                let _ = self.child.wait();
                Reply::Hung
            }
        }
    }

    fn exit_reason(&mut self) -> String {
        use std::os::unix::process::ExitStatusExt;
        // give the process a moment to be reaped
        for _ in 0..200 {
            match self.child.try_wait() {
                Ok(Some(st)) => {
                    return if let Some(sig) = st.signal() {
                        format!("worker killed by signal {}", sig)
                    } else {
                        format!("worker exited with status {:?}", st.code())
                    };
                }
                Ok(None) => std::thread::sleep(Duration::from_millis(10)),
                Err(_) => break,
            }
        }
        let _ = self.child.kill();
        let _ = self.child.wait();
        "worker stopped answering".to_string()
    }
}

impl Drop for WorkerHandle {
    fn drop(&mut self) {
        let _ = self.child.kill();
        let _ = self.child.wait();
    }
}

struct Shard {
    prop_id: &'static str,
    tier: Tier,
    known: Vec<String>,
    builds: Vec<Build>,
    workers: Vec<Option<WorkerHandle>>,
    hung: Arc<AtomicBool>,
}

impl Shard {
    fn new(prop: &PropDef, tier: Tier, known: &[String], hung: Arc<AtomicBool>) -> Shard {
        let builds = (prop.builds)(tier);
        let workers = builds.iter().map(|_| None).collect();
        Shard {
            prop_id: prop.id,
            tier,
            known: known.to_vec(),
            builds,
            workers,
            hung,
        }
    }

    /// Executes one tape on every build; merged outcome.
    fn exec(&mut self, tape: &[u8]) -> Outcome {
        let mut merged: Option<Outcome> = None;
        for i in 0..self.builds.len() {
            let build = self.builds[i];
            if self.workers[i].is_none() {
                match spawn_worker(self.prop_id, build, self.tier, &self.known) {
                    Ok(w) => self.workers[i] = Some(w),
                    Err(e) => {
                        let mut o = Outcome::new(String::new());
                        o.evals = 0;
                        self.hung.store(true, Ordering::SeqCst);
                        o.desc = format!("cannot spawn worker for build {}: {}", build.name(), e);
                        return o;
                    }
                }
            }
            let reply = self.workers[i].as_mut().unwrap().request(tape);
            let mut o = match reply {
                Reply::Outcome(o) => o,
                Reply::Died(why) => {
                    self.workers[i] = None;
                    let mut o = Outcome::new(format!("tape {}", hex(tape)));
                    o.fail(format!("{} (crash/abort while executing the case)", why));
                    o
                }
                Reply::Hung => {
                    self.workers[i] = None;
                    self.hung.store(true, Ordering::SeqCst);
                    // keep the tape of the case that hit the watchdog (inconclusive, not a violation)
                    let path = format!("{}/out/hangs/{}-{}.json", verif_dir(), self.prop_id, build.name());
                    write_replay_file(&path, self.prop_id, tape, "", "watchdog: no answer within the time limit", "hang");
                    eprintln!("watchdog: tape saved to {}", path);
                    let mut o = Outcome::new(format!("tape {}", hex(tape)));
                    o.evals = 0;
                    o.label("watchdog");
                    o
                }
            };
            if let Some(f) = o.fail.take() {
                o.fail = Some(format!("[{}] {}", build.name(), f));
            }
            match merged.as_mut() {
                None => {
                    o.label(format!("build:{}", build.name()));
                    merged = Some(o)
                }
                Some(m) => {
                    if m.fail.is_none() {
                        m.fail = o.fail;
                    }
                    for k in o.known {
                        m.known(&k);
                    }
                    m.label(format!("build:{}", build.name()));
                    // build-specific labels (prefixed with '@') are kept from every build
                    for (l, n) in o.labels {
                        if l.starts_with('@') {
                            m.labels.push((l, n));
                        }
                    }
                    if m.desc.is_empty() {
                        m.desc = o.desc;
                    }
                }
            }
        }
        merged.unwrap_or_default()
    }
}

/// If the failing outcome names a smaller reproducing tape (a single element of a batch or
/// enumeration chunk), confirm it fails and prefer it.
fn resolve_failure(shard: &mut Shard, tape: &[u8], o: &Outcome, origin: String) -> Failure {
    if let Some(r) = &o.repro {
        let o2 = shard.exec(r);
        if let Some(m2) = o2.fail {
            return Failure {
                tape: r.clone(),
                msg: m2,
                desc: o2.desc,
                origin: format!("{} (reduced to a single sub-case of tape {})", origin, hex(tape)),
            };
        }
    }
    Failure {
        tape: tape.to_vec(),
        msg: o.fail.clone().unwrap_or_default(),
        desc: o.desc.clone(),
        origin,
    }
}

#[derive(Default)]
struct Stats {
    evaluations: u64,
    distinct: HashSet<u64>,
    bulk: u64,
    labels: BTreeMap<String, u64>,
    samples: Vec<String>,
    sample_seen: u64,
    known_excluded: BTreeMap<String, u64>,
}

impl Stats {
    fn add(&mut self, o: &Outcome) {
        self.evaluations += o.evals;
        for k in &o.nontrivial {
            self.distinct.insert(*k);
        }
        self.bulk += o.bulk_nontrivial;
        for (l, n) in &o.labels {
            *self.labels.entry(l.clone()).or_insert(0) += n;
        }
        for k in &o.known {
            *self.known_excluded.entry(k.clone()).or_insert(0) += 1;
        }
        if !o.desc.is_empty() {
            self.sample_seen += 1;
            // keep the first 4 and then a deterministic thinning of later ones
            if self.samples.len() < 4 {
                self.samples.push(o.desc.clone());
            } else if self.samples.len() < 12 && self.sample_seen.is_power_of_two() {
                self.samples.push(o.desc.clone());
            }
        }
    }
}

#[derive(Clone)]
struct Failure {
    tape: Vec<u8>,
    msg: String,
    desc: String,
    origin: String,
}

pub struct KnownEntry {
    pub key: String,
    pub status: String,
    pub text: String,
    pub witness: Option<Vec<u8>>,
}

pub fn load_known(prop_id: &str) -> Vec<KnownEntry> {
    let path = format!("{}/known_findings.json", verif_dir());
    let Ok(txt) = std::fs::read_to_string(&path) else {
        return Vec::new();
    };
    let Ok(v) = serde_json::from_str::<Value>(&txt) else {
        eprintln!("warning: {} is not valid JSON", path);
        return Vec::new();
    };
    let mut out = Vec::new();
    if let Some(arr) = v.get("findings").and_then(|f| f.as_array()) {
        for e in arr {
            if e.get("property").and_then(|p| p.as_str()) != Some(prop_id) {
                continue;
            }
            out.push(KnownEntry {
                key: e.get("key").and_then(|x| x.as_str()).unwrap_or("").to_string(),
                status: e.get("status").and_then(|x| x.as_str()).unwrap_or("").to_string(),
                text: e.get("text").and_then(|x| x.as_str()).unwrap_or("").to_string(),
                witness: e
                    .get("witness_tape")
                    .and_then(|x| x.as_str())
                    .and_then(unhex),
            });
        }
    }
    out
}

fn load_replays(prop_id: &str) -> Vec<(String, Vec<u8>)> {
    let dir = format!("{}/replays/{}", verif_dir(), prop_id);
    let mut out = Vec::new();
    if let Ok(rd) = std::fs::read_dir(&dir) {
        let mut names: Vec<_> = rd.filter_map(|e| e.ok()).map(|e| e.path()).collect();
        names.sort();
        for p in names {
            if p.extension().and_then(|e| e.to_str()) != Some("json") {
                continue;
            }
            if let Ok(txt) = std::fs::read_to_string(&p) {
                if let Ok(v) = serde_json::from_str::<Value>(&txt) {
                    if let Some(t) = v.get("tape_hex").and_then(|x| x.as_str()).and_then(unhex) {
                        out.push((p.display().to_string(), t));
                    }
                }
            }
        }
    }
    out
}

pub fn write_replay_file(path: &str, prop_id: &str, tape: &[u8], desc: &str, msg: &str, origin: &str) {
    if let Some(parent) = std::path::Path::new(path).parent() {
        let _ = std::fs::create_dir_all(parent);
    }
    let v = json!({
        "property": prop_id,
        "tape_hex": hex(tape),
        "decoded": desc,
        "message": msg,
        "origin": origin,
    });
    let _ = std::fs::write(path, serde_json::to_string_pretty(&v).unwrap());
}

pub fn run_property(prop: &'static PropDef, tier: Tier, seed: u64) -> i32 {
    let t0 = Instant::now();
    let known_entries = load_known(prop.id);
    let known_keys: Vec<String> = known_entries
        .iter()
        .filter(|e| e.status == "known")
        .map(|e| e.key.clone())
        .collect();

    let nshards: usize = std::env::var("FIRV_SHARDS")
        .ok()
        .and_then(|s| s.parse().ok())
        .unwrap_or(16);
    let total_cases = (prop.cases)(tier);
    let scale: f64 = std::env::var("FIRV_CASE_SCALE")
        .ok()
        .and_then(|s| s.parse().ok())
        .unwrap_or(1.0);
    let total_cases = (total_cases as f64 * scale) as u64;

    let stats = Arc::new(Mutex::new(Stats::default()));
    let failures: Arc<Mutex<Vec<Failure>>> = Arc::new(Mutex::new(Vec::new()));
    let stop = Arc::new(AtomicBool::new(false));
    let hung = Arc::new(AtomicBool::new(false));
    let shrink_execs = Arc::new(AtomicU64::new(0));

    // ---- fixed tier: known-finding witnesses, saved replays, enumeration chunks
    let mut fixed: VecDeque<(String, Vec<u8>)> = VecDeque::new();
    for (name, t) in load_replays(prop.id) {
        fixed.push_back((format!("replay:{}", name), t));
    }
    for e in &known_entries {
        if e.status == "fixed" {
            if let Some(w) = &e.witness {
                fixed.push_back((format!("fixed-finding:{}", e.key), w.clone()));
            }
        }
    }
    for (i, t) in (prop.fixed)(tier).into_iter().enumerate() {
        fixed.push_back((format!("enumeration:{}", i), t));
    }
    let n_fixed = fixed.len();
    let fixed = Arc::new(Mutex::new(fixed));

    // ---- known-finding witnesses (reported, never violations)
    {
        let mut shard = Shard::new(prop, tier, &known_keys, hung.clone());
        for e in known_entries.iter().filter(|e| e.status == "known") {
            match &e.witness {
                Some(w) => {
                    let o = shard.exec(w);
                    if o.known.iter().any(|k| k == &e.key) || o.failed() {
                        println!("KNOWN-FINDING: property={} {} [{}]", prop.id, e.text, e.key);
                    } else {
                        println!(
                            "note: known finding {} of {} no longer reproduces on its witness",
                            e.key, prop.id
                        );
                    }
                }
                None => println!("KNOWN-FINDING: property={} {} [{}]", prop.id, e.text, e.key),
            }
        }
    }

    let mut handles = Vec::new();
    for shard_idx in 0..nshards {
        let stats = stats.clone();
        let failures = failures.clone();
        let stop = stop.clone();
        let hung = hung.clone();
        let fixed = fixed.clone();
        let known_keys = known_keys.clone();
        let shrink_execs = shrink_execs.clone();
        let cases = total_cases / nshards as u64 + if (shard_idx as u64) < total_cases % nshards as u64 { 1 } else { 0 };
        handles.push(std::thread::spawn(move || {
            let mut shard = Shard::new(prop, tier, &known_keys, hung.clone());
            // fixed queue first
            loop {
                if stop.load(Ordering::SeqCst) || hung.load(Ordering::SeqCst) {
                    break;
                }
                let item = fixed.lock().unwrap().pop_front();
                let Some((origin, tape)) = item else { break };
                let o = shard.exec(&tape);
                stats.lock().unwrap().add(&o);
                if o.fail.is_some() {
                    let f = resolve_failure(&mut shard, &tape, &o, origin);
                    failures.lock().unwrap().push(f);
                    stop.store(true, Ordering::SeqCst);
                }
            }
            if cases == 0 {
                return;
            }
            let s = seed ^ ((shard_idx as u64 + 1).wrapping_mul(0x9E37_79B9_7F4A_7C15));
            let config = Config {
                cases: cases as u32,
                failure_persistence: None,
                rng_seed: RngSeed::Fixed(s ^ fnv(prop.id.as_bytes())),
                max_shrink_iters: 4000,
                max_local_rejects: 1,
                max_global_rejects: 1,
                ..Config::default()
            };
            let mut runner = TestRunner::new(config);
            let strategy = proptest::collection::vec(proptest::num::u8::ANY, 0..=prop.max_tape);
            let failed_here = std::cell::Cell::new(false);
            let last_fail: std::cell::RefCell<Option<(String, String)>> = std::cell::RefCell::new(None);
            let shard_cell = std::cell::RefCell::new(shard);
            let result = runner.run(&strategy, |tape| {
                if hung.load(Ordering::SeqCst) {
                    return Ok(());
                }
                if !failed_here.get() && stop.load(Ordering::SeqCst) {
                    // another shard found a failure: finish quickly
                    return Ok(());
                }
                let o = shard_cell.borrow_mut().exec(&tape);
                if !failed_here.get() {
                    stats.lock().unwrap().add(&o);
                } else {
                    shrink_execs.fetch_add(1, Ordering::Relaxed);
                }
                match &o.fail {
                    Some(msg) => {
                        failed_here.set(true);
                        stop.store(true, Ordering::SeqCst);
                        *last_fail.borrow_mut() = Some((msg.clone(), o.desc.clone()));
                        Err(TestCaseError::fail(msg.clone()))
                    }
                    None => Ok(()),
                }
            });
            match result {
                Ok(()) => {}
                Err(TestError::Fail(_reason, tape)) => {
                    // re-execute the minimal tape for its message and description
                    let mut o = shard_cell.borrow_mut().exec(&tape);
                    if o.fail.is_none() {
                        let (m, d) = last_fail.borrow().clone().unwrap_or_default();
                        o.fail = Some(format!("{} (did not reproduce on re-run of the shrunk tape: flaky)", m));
                        o.desc = d;
                        o.repro = None;
                    }
                    let origin = format!("generated: shard {} seed {}", shard_idx, seed);
                    let f = resolve_failure(&mut shard_cell.borrow_mut(), &tape, &o, origin);
                    failures.lock().unwrap().push(f);
                }
                Err(TestError::Abort(reason)) => {
                    eprintln!("proptest aborted in shard {}: {}", shard_idx, reason);
                    hung.store(true, Ordering::SeqCst);
                }
            }
        }));
    }
    for h in handles {
        let _ = h.join();
    }

    let wall = t0.elapsed().as_secs_f64();
    let stats = stats.lock().unwrap();
    let failures = failures.lock().unwrap();
    let distinct = stats.distinct.len() as u64 + stats.bulk;

    // ---- evidence
    let mut assumptions: Vec<String> = prop.assumptions.iter().map(|s| s.to_string()).collect();
    assumptions.push("only x86_64 back-ends (None, SSE4.1, AVX2) can be executed in this sandbox; NEON and WASM kernels are not run".to_string());
    assumptions.push("generated-input search: absence of a counter-example in the explored cases, not a proof".to_string());
    let evidence = json!({
        "property_id": prop.id,
        "tier": tier.name(),
        "seed": seed,
        "level": "exploration",
        "coverage": {
            "evaluations": stats.evaluations,
            "distinct_nontrivial": distinct,
            "rule": prop.rule,
            "samples": stats.samples,
            "labels": stats.labels,
            "exhaustive": (prop.exhaustive)(tier),
            "fixed_tapes": n_fixed,
            "generated_tapes_requested": total_cases,
            "known_findings_excluded": stats.known_excluded,
            "builds": (prop.builds)(tier).iter().map(|b| b.name()).collect::<Vec<_>>(),
            "shards": nshards,
            "shrink_executions": shrink_execs.load(Ordering::Relaxed),
        },
        "assumptions": assumptions,
        "wall_s": (wall * 1000.0).round() / 1000.0,
        "violations": failures.len(),
    });
    let ev_dir = format!("{}/evidence", verif_dir());
    let _ = std::fs::create_dir_all(&ev_dir);
    let ev_path = format!("{}/{}.json", ev_dir, prop.id);
    if let Err(e) = std::fs::write(&ev_path, serde_json::to_string_pretty(&evidence).unwrap()) {
        eprintln!("cannot write evidence {}: {}", ev_path, e);
    }

    println!(
        "{} tier={} seed={} evaluations={} distinct_nontrivial={} fixed_tapes={} wall={:.1}s",
        prop.id,
        tier.name(),
        seed,
        stats.evaluations,
        distinct,
        n_fixed,
        wall
    );
    for (k, n) in &stats.known_excluded {
        println!("  excluded by known finding {}: {} cases", k, n);
    }

    if !failures.is_empty() {
        // report the smallest failing tape
        let mut fs: Vec<Failure> = failures.clone();
        fs.sort_by_key(|f| (f.tape.len(), f.tape.clone()));
        let f = &fs[0];
        let path = format!(
            "{}/out/violations/{}-{}-seed{}.json",
            verif_dir(),
            prop.id,
            tier.name(),
            seed
        );
        write_replay_file(&path, prop.id, &f.tape, &f.desc, &f.msg, &f.origin);
        println!("  failing case: {}", f.desc);
        println!("  reason: {}", f.msg);
        println!("VIOLATION property={} replay={}", prop.id, path);
        return 1;
    }
    if hung.load(Ordering::SeqCst) {
        println!("INCONCLUSIVE property={} (watchdog / worker start failure)", prop.id);
        return 2;
    }
    if stats.evaluations == 0 {
        println!("INCONCLUSIVE property={} (nothing was evaluated)", prop.id);
        return 2;
    }
    0
}

/// Replays one saved tape on every build of the property; strict (no known-finding exclusion).
pub fn replay(prop: &'static PropDef, path: &str, tier: Tier) -> i32 {
    let txt = match std::fs::read_to_string(path) {
        Ok(t) => t,
        Err(e) => {
            eprintln!("cannot read {}: {}", path, e);
            return 2;
        }
    };
    let tape = serde_json::from_str::<Value>(&txt)
        .ok()
        .and_then(|v| v.get("tape_hex").and_then(|x| x.as_str()).and_then(unhex))
        .or_else(|| unhex(&txt));
    let Some(tape) = tape else {
        eprintln!("{} does not contain a tape", path);
        return 2;
    };
    let hung = Arc::new(AtomicBool::new(false));
    let mut shard = Shard::new(prop, tier, &[], hung.clone());
    let o = shard.exec(&tape);
    println!("case: {}", o.desc);
    for (l, n) in &o.labels {
        println!("  label {} x{}", l, n);
    }
    if let Some(msg) = &o.fail {
        println!("  reason: {}", msg);
        println!("VIOLATION property={} replay={}", prop.id, path);
        return 1;
    }
    if hung.load(Ordering::SeqCst) {
        println!("INCONCLUSIVE property={}", prop.id);
        return 2;
    }
    println!("ok: property {} holds on this tape", prop.id);
    0
}
