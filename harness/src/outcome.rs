//! Result of checking one tape (or one enumeration chunk) in a worker.
use serde_json::{json, Value};

#[derive(Clone, Copy, Debug, PartialEq, Eq, Hash)]
pub enum Build {
    Opt,
    Dbg,
    RayonOpt,
    RayonDbg,
}

impl Build {
    pub fn name(self) -> &'static str {
        match self {
            Build::Opt => "opt",
            Build::Dbg => "dbg",
            Build::RayonOpt => "rayon-opt",
            Build::RayonDbg => "rayon-dbg",
        }
    }
    pub fn from_name(s: &str) -> Option<Build> {
        Some(match s {
            "opt" => Build::Opt,
            "dbg" => Build::Dbg,
            "rayon-opt" => Build::RayonOpt,
            "rayon-dbg" => Build::RayonDbg,
            _ => return None,
        })
    }
    /// Path of the harness binary of this build, relative to /verif/harness.
    pub fn binary(self) -> &'static str {
        match self {
            Build::Opt => "target/release/firv",
            Build::Dbg => "target/dbg/firv",
            Build::RayonOpt => "target-rayon/release/firv",
            Build::RayonDbg => "target-rayon/dbg/firv",
        }
    }
    /// The build this binary was compiled as.
    pub fn current() -> Build {
        let dbg = cfg!(debug_assertions);
        let rayon = cfg!(feature = "rayon");
        match (rayon, dbg) {
            (false, false) => Build::Opt,
            (false, true) => Build::Dbg,
            (true, false) => Build::RayonOpt,
            (true, true) => Build::RayonDbg,
        }
    }
    pub fn is_dbg(self) -> bool {
        matches!(self, Build::Dbg | Build::RayonDbg)
    }
}

#[derive(Clone, Copy, Debug, PartialEq, Eq)]
pub enum Tier {
    Quick,
    Thorough,
}

impl Tier {
    pub fn name(self) -> &'static str {
        match self {
            Tier::Quick => "quick",
            Tier::Thorough => "thorough",
        }
    }
}

#[derive(Clone, Debug)]
pub struct Ctx {
    pub build: Build,
    pub tier: Tier,
    /// keys of known findings whose region is excluded from the search
    pub known: Vec<String>,
}

impl Ctx {
    pub fn is_known(&self, key: &str) -> bool {
        self.known.iter().any(|k| k == key)
    }
}

#[derive(Clone, Debug, Default)]
pub struct Outcome {
    /// violation message (None = property held on this case)
    pub fail: Option<String>,
    /// the case (or part of it) fell into the region of this known finding and was excluded
    pub known: Vec<String>,
    /// number of executions this tape stood for (1, or the size of an enumeration chunk)
    pub evals: u64,
    /// fingerprints of distinct non-trivial cases seen
    pub nontrivial: Vec<u64>,
    /// distinct non-trivial cases of an enumeration chunk (distinct by construction)
    pub bulk_nontrivial: u64,
    pub labels: Vec<(String, u64)>,
    /// human readable decoded case
    pub desc: String,
    /// a tape that reproduces the failure of one sub-case of a batch / enumeration chunk
    pub repro: Option<Vec<u8>>,
}

impl Outcome {
    pub fn new(desc: String) -> Self {
        Outcome {
            evals: 1,
            desc,
            ..Default::default()
        }
    }
    pub fn label(&mut self, l: impl Into<String>) {
        self.labels.push((l.into(), 1));
    }
    pub fn label_n(&mut self, l: impl Into<String>, n: u64) {
        if n > 0 {
            self.labels.push((l.into(), n));
        }
    }
    pub fn nontrivial_key(&mut self, key: u64) {
        self.nontrivial.push(key);
    }
    pub fn fail(&mut self, msg: impl Into<String>) {
        if self.fail.is_none() {
            self.fail = Some(msg.into());
        }
    }
    pub fn failed(&self) -> bool {
        self.fail.is_some()
    }
    pub fn known(&mut self, key: &str) {
        if !self.known.iter().any(|k| k == key) {
            self.known.push(key.to_string());
        }
    }

    pub fn to_json(&self) -> Value {
        json!({
            "fail": self.fail,
            "known": self.known,
            "evals": self.evals,
            "nontrivial": self.nontrivial.iter().map(|k| format!("{:x}", k)).collect::<Vec<_>>(),
            "bulk": self.bulk_nontrivial,
            "labels": self.labels.iter().map(|(l, n)| json!([l, n])).collect::<Vec<_>>(),
            "desc": self.desc,
            "repro": self.repro.as_ref().map(|t| crate::tape::hex(t)),
        })
    }

    pub fn from_json(v: &Value) -> Option<Outcome> {
        Some(Outcome {
            fail: v.get("fail")?.as_str().map(|s| s.to_string()),
            known: v
                .get("known")?
                .as_array()?
                .iter()
                .filter_map(|x| x.as_str().map(|s| s.to_string()))
                .collect(),
            evals: v.get("evals")?.as_u64()?,
            nontrivial: v
                .get("nontrivial")?
                .as_array()?
                .iter()
                .filter_map(|x| x.as_str().and_then(|s| u64::from_str_radix(s, 16).ok()))
                .collect(),
            bulk_nontrivial: v.get("bulk")?.as_u64()?,
            labels: v
                .get("labels")?
                .as_array()?
                .iter()
                .filter_map(|x| {
                    let a = x.as_array()?;
                    Some((a.first()?.as_str()?.to_string(), a.get(1)?.as_u64()?))
                })
                .collect(),
            desc: v.get("desc")?.as_str()?.to_string(),
            repro: v.get("repro").and_then(|x| x.as_str()).and_then(crate::tape::unhex),
        })
    }
}

/// Static description of one property check.
pub struct PropDef {
    pub id: &'static str,
    pub builds: fn(Tier) -> Vec<Build>,
    pub max_tape: usize,
    /// number of generated (proptest) tapes
    pub cases: fn(Tier) -> u64,
    /// enumeration / fixed tapes run before the generated ones
    pub fixed: fn(Tier) -> Vec<Vec<u8>>,
    pub check: fn(&[u8], &Ctx) -> Outcome,
    pub rule: &'static str,
    pub assumptions: &'static [&'static str],
    pub exhaustive: fn(Tier) -> bool,
}

pub fn no_fixed(_: Tier) -> Vec<Vec<u8>> {
    Vec::new()
}
pub fn not_exhaustive(_: Tier) -> bool {
    false
}
pub fn opt_only(_: Tier) -> Vec<Build> {
    vec![Build::Opt]
}
pub fn opt_and_dbg(_: Tier) -> Vec<Build> {
    vec![Build::Opt, Build::Dbg]
}
