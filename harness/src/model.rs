//! Independent reference model of the resampling (f64, interval arithmetic).
//!
//! Nothing here shares code with the library: kernels are transcribed from the
//! documented / textbook formulas, windows are "all source pixels with a non-zero
//! kernel value", and each pass maps a grid of allowed intervals to a grid of
//! allowed intervals.
use crate::img::Comp;
use std::f64::consts::PI;

// ---------------------------------------------------------------- kernels

fn sinc(x: f64) -> f64 {
    if x == 0.0 {
        1.0
    } else {
        (PI * x).sin() / (PI * x)
    }
}

/// Built-in kernels by index: Box, Bilinear, Hamming, CatmullRom, Mitchell, Gaussian, Lanczos3.
pub fn kernel(f: u8, t: f64) -> f64 {
    let a = t.abs();
    match f {
        0 => {
            if t > -0.5 && t <= 0.5 {
                1.0
            } else {
                0.0
            }
        }
        1 => (1.0 - a).max(0.0),
        2 => {
            if a >= 1.0 {
                0.0
            } else {
                sinc(a) * (0.54 + 0.46 * (PI * a).cos())
            }
        }
        3 => {
            // cubic convolution, a = -1/2
            if a < 1.0 {
                1.5 * a * a * a - 2.5 * a * a + 1.0
            } else if a < 2.0 {
                -0.5 * a * a * a + 2.5 * a * a - 4.0 * a + 2.0
            } else {
                0.0
            }
        }
        4 => {
            // Mitchell-Netravali, B = C = 1/3
            let b = 1.0 / 3.0;
            let c = 1.0 / 3.0;
            if a < 1.0 {
                ((12.0 - 9.0 * b - 6.0 * c) * a * a * a + (-18.0 + 12.0 * b + 6.0 * c) * a * a + (6.0 - 2.0 * b)) / 6.0
            } else if a < 2.0 {
                ((-b - 6.0 * c) * a * a * a
                    + (6.0 * b + 30.0 * c) * a * a
                    + (-12.0 * b - 48.0 * c) * a
                    + (8.0 * b + 24.0 * c))
                    / 6.0
            } else {
                0.0
            }
        }
        5 => {
            // Gaussian, sigma = 0.5, cut at 3
            if t >= -3.0 && t < 3.0 {
                let s = 0.5;
                (-(t * t) / (2.0 * s * s)).exp() / ((2.0 * PI).sqrt() * s)
            } else {
                0.0
            }
        }
        _ => {
            if t >= -3.0 && t < 3.0 {
                sinc(t) * sinc(t / 3.0)
            } else {
                0.0
            }
        }
    }
}

pub fn support(f: u8) -> f64 {
    match f {
        0 => 0.5,
        1 | 2 => 1.0,
        3 | 4 => 2.0,
        _ => 3.0,
    }
}

/// Points where the kernel jumps (the ideal weight is undefined there).
pub fn discontinuities(f: u8) -> &'static [f64] {
    match f {
        0 => &[-0.5, 0.5],
        5 => &[-3.0, 3.0],
        _ => &[],
    }
}

pub fn is_nonnegative(f: u8) -> bool {
    matches!(f, 0 | 1 | 2 | 5)
}

// ---------------------------------------------------------------- weights

#[derive(Clone, Debug)]
pub struct Win {
    pub start: usize,
    /// every variant has the same length: weights of taps start .. start+len
    pub variants: Vec<Vec<f64>>,
    /// number of taps that are non-zero in some variant
    pub taps: usize,
    /// untrimmed tap range (one pixel beyond the support on each side) ...
    pub full_start: usize,
    pub full_len: usize,
    /// ... over which each weight may be off by this much: f64 noise of evaluating the kernel
    /// argument at coordinate c (relevant only for I32 / F32 data of huge dynamic range)
    pub w_noise: f64,
}

#[derive(Clone, Debug)]
pub struct AxisWeights {
    pub wins: Vec<Win>,
    pub max_w: f64,
    pub max_taps: usize,
    pub ambiguous_windows: usize,
}

#[derive(Clone, Debug, PartialEq)]
pub enum WErr {
    TooAmbiguous,
    ZeroSum,
    Degenerate,
}

/// Ideal normalised weights of one axis.
pub fn weights(in_size: u32, in0: f64, in1: f64, out: u32, f: u8, adaptive: bool) -> Result<AxisWeights, WErr> {
    if in_size == 0 || out == 0 {
        return Err(WErr::Degenerate);
    }
    let scale = (in1 - in0) / out as f64;
    if !(scale > 0.0) || !scale.is_finite() {
        return Err(WErr::Degenerate);
    }
    let fs = if adaptive { scale.max(1.0) } else { 1.0 };
    let rad = support(f) * fs;
    let disc = discontinuities(f);
    let mut wins = Vec::with_capacity(out as usize);
    let mut max_w: f64 = 0.0;
    let mut max_taps = 0usize;
    let mut ambiguous_windows = 0usize;
    for i in 0..out {
        let c = in0 + (i as f64 + 0.5) * scale;
        let first = ((c - rad).floor() - 1.0).max(0.0) as usize;
        let last = ((c + rad).ceil() + 1.0).min(in_size as f64).max(0.0) as usize;
        if last <= first {
            return Err(WErr::ZeroSum);
        }
        let n = last - first;
        let mut raw = Vec::with_capacity(n);
        let mut amb: Vec<(usize, f64, f64)> = Vec::new();
        for x in first..last {
            let t = (x as f64 + 0.5 - c) / fs;
            raw.push(kernel(f, t));
            for &d in disc {
                if (t - d).abs() < 1e-9 * (1.0 + c.abs()) {
                    amb.push((x - first, kernel(f, d - 1e-6), kernel(f, d + 1e-6)));
                }
            }
        }
        if amb.len() > 3 {
            return Err(WErr::TooAmbiguous);
        }
        if !amb.is_empty() {
            ambiguous_windows += 1;
        }
        let mut variants = Vec::with_capacity(1 << amb.len());
        for mask in 0..(1usize << amb.len()) {
            let mut w = raw.clone();
            for (k, (idx, below, above)) in amb.iter().enumerate() {
                w[*idx] = if mask >> k & 1 == 0 { *below } else { *above };
            }
            let sum: f64 = w.iter().sum();
            if sum == 0.0 || !sum.is_finite() {
                continue;
            }
            for v in w.iter_mut() {
                *v /= sum;
            }
            variants.push(w);
        }
        if variants.is_empty() {
            return Err(WErr::ZeroSum);
        }
        // trim taps that are zero in all variants
        let nz = |k: usize| variants.iter().any(|v| v[k] != 0.0);
        let mut a = 0;
        while a < n && !nz(a) {
            a += 1;
        }
        let mut b = n;
        while b > a && !nz(b - 1) {
            b -= 1;
        }
        let taps = (a..b).filter(|&k| nz(k)).count();
        for v in variants.iter_mut() {
            *v = v[a..b].to_vec();
        }
        for v in &variants {
            for &x in v {
                if x > max_w {
                    max_w = x;
                }
            }
        }
        max_taps = max_taps.max(taps);
        wins.push(Win {
            start: first + a,
            variants,
            taps,
            full_start: first,
            full_len: n,
            w_noise: 32.0 * f64::EPSILON * (1.0 + c.abs()) / fs,
        });
    }
    Ok(AxisWeights {
        wins,
        max_w,
        max_taps,
        ambiguous_windows,
    })
}

// ---------------------------------------------------------------- interval grids

#[derive(Clone, Debug)]
pub struct Grid {
    pub w: usize,
    pub h: usize,
    pub ch: usize,
    pub lo: Vec<f64>,
    pub hi: Vec<f64>,
}

impl Grid {
    pub fn exact(w: usize, h: usize, ch: usize, vals: Vec<f64>) -> Grid {
        assert_eq!(vals.len(), w * h * ch);
        Grid {
            w,
            h,
            ch,
            lo: vals.clone(),
            hi: vals,
        }
    }
    #[inline]
    pub fn idx(&self, x: usize, y: usize, c: usize) -> usize {
        (y * self.w + x) * self.ch + c
    }
}

#[derive(Clone, Debug)]
pub enum AxisPlan {
    /// no resampling: output sample i is input sample offset+i
    Identity { offset: usize, out: usize },
    Resample(AxisWeights),
}

impl AxisPlan {
    pub fn out_len(&self) -> usize {
        match self {
            AxisPlan::Identity { out, .. } => *out,
            AxisPlan::Resample(w) => w.wins.len(),
        }
    }
}

/// Quantisation allowance of one window for the fixed-point formats (in component units).
fn fixed_eps(c: Comp, taps: usize, max_w: f64) -> f64 {
    let (coef_bits, max_prec, v) = match c {
        Comp::U8 => (15.0, 21.0, 255.0),
        Comp::U16 => (31.0, 45.0, 65535.0),
        _ => return 0.0,
    };
    let mw = if max_w > 0.0 { max_w } else { 1.0 };
    // precision the fixed-point design can afford for this maximal weight
    let p = ((coef_bits - mw.log2()).floor() - 1.0).min(max_prec).max(0.0);
    // half a fixed-point unit per coefficient, with one bit of slack
    taps as f64 * v * 2f64.powf(-(p + 1.0) + 1.0) + 1e-9
}

/// One resampling pass over `axis` (0 = horizontal, 1 = vertical).
pub fn pass(g: &Grid, plan: &AxisPlan, axis: usize, c: Comp) -> Grid {
    let (ow, oh) = if axis == 0 {
        (plan.out_len(), g.h)
    } else {
        (g.w, plan.out_len())
    };
    let mut out = Grid {
        w: ow,
        h: oh,
        ch: g.ch,
        lo: vec![0.0; ow * oh * g.ch],
        hi: vec![0.0; ow * oh * g.ch],
    };
    let (vmin, vmax) = match c {
        Comp::U8 => (0.0, 255.0),
        Comp::U16 => (0.0, 65535.0),
        Comp::I32 => (i32::MIN as f64, i32::MAX as f64),
        Comp::F32 => (f64::NEG_INFINITY, f64::INFINITY),
    };
    match plan {
        AxisPlan::Identity { offset, .. } => {
            for y in 0..oh {
                for x in 0..ow {
                    let (sx, sy) = if axis == 0 { (x + offset, y) } else { (x, y + offset) };
                    for k in 0..g.ch {
                        let si = g.idx(sx, sy, k);
                        let di = out.idx(x, y, k);
                        out.lo[di] = g.lo[si];
                        out.hi[di] = g.hi[si];
                    }
                }
            }
        }
        AxisPlan::Resample(aw) => {
            let stride = if axis == 0 { g.ch } else { g.w * g.ch };
            let outer = if axis == 0 { g.h } else { g.w };
            for (i, win) in aw.wins.iter().enumerate() {
                let eps = fixed_eps(c, win.taps, aw.max_w);
                for o in 0..outer {
                    for k in 0..g.ch {
                        let base = if axis == 0 {
                            g.idx(win.start, o, k)
                        } else {
                            g.idx(o, win.start, k)
                        };
                        let mut alo = f64::INFINITY;
                        let mut ahi = f64::NEG_INFINITY;
                        // allowance for the f64 noise of the weights themselves
                        let mut noise = 0.0;
                        if matches!(c, Comp::I32 | Comp::F32) {
                            let mut p = if axis == 0 {
                                g.idx(win.full_start, o, k)
                            } else {
                                g.idx(o, win.full_start, k)
                            };
                            for _ in 0..win.full_len {
                                noise += g.lo[p].abs().max(g.hi[p].abs());
                                p += stride;
                            }
                            noise *= win.w_noise;
                        }
                        for var in &win.variants {
                            let mut s_lo = 0.0;
                            let mut s_hi = 0.0;
                            let mut amp = 0.0;
                            let mut p = base;
                            for &w in var {
                                let (l, h) = (g.lo[p], g.hi[p]);
                                if w >= 0.0 {
                                    s_lo += w * l;
                                    s_hi += w * h;
                                } else {
                                    s_lo += w * h;
                                    s_hi += w * l;
                                }
                                amp += w.abs() * l.abs().max(h.abs());
                                p += stride;
                            }
                            let (l, h) = match c {
                                Comp::U8 | Comp::U16 => (
                                    (s_lo - eps - 0.5).ceil().clamp(vmin, vmax),
                                    (s_hi + eps + 0.5).floor().clamp(vmin, vmax),
                                ),
                                Comp::I32 => {
                                    let e = amp * 2f64.powi(-40) + 1e-9 + noise;
                                    (
                                        (s_lo - e - 0.5).ceil().clamp(vmin, vmax),
                                        (s_hi + e + 0.5).floor().clamp(vmin, vmax),
                                    )
                                }
                                Comp::F32 => {
                                    let e = amp * 2f64.powi(-23) + noise;
                                    (s_lo - e, s_hi + e)
                                }
                            };
                            if l < alo {
                                alo = l;
                            }
                            if h > ahi {
                                ahi = h;
                            }
                        }
                        let di = if axis == 0 { out.idx(i, o, k) } else { out.idx(o, i, k) };
                        out.lo[di] = alo;
                        out.hi[di] = ahi;
                    }
                }
            }
        }
    }
    out
}

// ---------------------------------------------------------------- nearest

/// Candidate source indices of destination index `i` for the Nearest algorithm:
/// floor(origin + (i + 0.5) * extent / out), both neighbours where the coordinate is within
/// floating-point noise of an integer, clamped into the image.
pub fn nearest_candidates(origin: f64, extent: f64, out: u32, in_size: u32, i: u32) -> (usize, usize) {
    let scale = extent / out as f64;
    let tx = origin + (i as f64 + 0.5) * scale;
    let delta = 4.0 * (out as f64 + 4.0) * f64::EPSILON * tx.abs().max(1.0);
    let maxi = in_size.saturating_sub(1) as f64;
    let a = (tx - delta).floor().clamp(0.0, maxi) as usize;
    let b = (tx + delta).floor().clamp(0.0, maxi) as usize;
    (a, b)
}

/// Interval grid of the nearest-neighbour resize of `g` (crop l,t,cw,ch) to ow×oh.
pub fn nearest(g: &Grid, l: f64, t: f64, cw: f64, chh: f64, ow: u32, oh: u32) -> Grid {
    let mut out = Grid {
        w: ow as usize,
        h: oh as usize,
        ch: g.ch,
        lo: vec![0.0; ow as usize * oh as usize * g.ch],
        hi: vec![0.0; ow as usize * oh as usize * g.ch],
    };
    let xs: Vec<(usize, usize)> = (0..ow).map(|x| nearest_candidates(l, cw, ow, g.w as u32, x)).collect();
    for y in 0..oh {
        let (ya, yb) = nearest_candidates(t, chh, oh, g.h as u32, y);
        for x in 0..ow as usize {
            let (xa, xb) = xs[x];
            for k in 0..g.ch {
                let mut lo = f64::INFINITY;
                let mut hi = f64::NEG_INFINITY;
                for &yy in &[ya, yb] {
                    for &xx in &[xa, xb] {
                        let si = g.idx(xx, yy, k);
                        lo = lo.min(g.lo[si]);
                        hi = hi.max(g.hi[si]);
                    }
                }
                let di = out.idx(x, y as usize, k);
                out.lo[di] = lo;
                out.hi[di] = hi;
            }
        }
    }
    out
}

// ---------------------------------------------------------------- whole resize

#[derive(Clone, Debug)]
pub struct ModelResult {
    /// allowed intervals for each admissible pass order (1 or 2 entries)
    pub orders: Vec<Grid>,
    pub passes: &'static str,
    pub max_taps: usize,
    pub ambiguous_windows: usize,
}

#[derive(Clone, Debug, PartialEq)]
pub enum ModelSkip {
    Weights(WErr),
    AmbiguousSize,
    ZeroSize,
}

fn axis_plan(in_size: u32, origin: f64, extent: f64, out: u32, f: u8, adaptive: bool) -> Result<AxisPlan, ModelSkip> {
    if out as f64 == extent && origin == origin.round() {
        Ok(AxisPlan::Identity {
            offset: origin as usize,
            out: out as usize,
        })
    } else {
        weights(in_size, origin, origin + extent, out, f, adaptive)
            .map(AxisPlan::Resample)
            .map_err(ModelSkip::Weights)
    }
}

/// Range of input samples an axis plan can touch (including the untrimmed windows used for the noise term).
fn plan_span(p: &AxisPlan, size: usize) -> (usize, usize) {
    match p {
        AxisPlan::Identity { offset, out } => (*offset, (*offset + *out).min(size).max(*offset)),
        AxisPlan::Resample(w) => {
            let mut lo = size;
            let mut hi = 0;
            for win in &w.wins {
                lo = lo.min(win.start).min(win.full_start);
                let len = win.variants.first().map(|v| v.len()).unwrap_or(0);
                hi = hi.max(win.start + len).max(win.full_start + win.full_len);
            }
            if lo >= hi {
                (0, size)
            } else {
                (lo, hi.min(size))
            }
        }
    }
}

fn shift_plan(p: &mut AxisPlan, delta: usize) {
    match p {
        AxisPlan::Identity { offset, .. } => *offset -= delta,
        AxisPlan::Resample(w) => {
            for win in w.wins.iter_mut() {
                win.start -= delta;
                win.full_start -= delta;
            }
        }
    }
}

fn restrict(g: &Grid, x0: usize, x1: usize, y0: usize, y1: usize) -> Grid {
    let (w, h) = (x1 - x0, y1 - y0);
    let mut out = Grid {
        w,
        h,
        ch: g.ch,
        lo: Vec::with_capacity(w * h * g.ch),
        hi: Vec::with_capacity(w * h * g.ch),
    };
    for y in y0..y1 {
        let a = g.idx(x0, y, 0);
        let b = a + w * g.ch;
        out.lo.extend_from_slice(&g.lo[a..b]);
        out.hi.extend_from_slice(&g.hi[a..b]);
    }
    out
}

/// Convolution / Interpolation of `src` (crop l,t,cw,ch) to dw×dh.
#[allow(clippy::too_many_arguments)]
pub fn convolve(
    src: &Grid,
    c: Comp,
    l: f64,
    t: f64,
    cw: f64,
    chh: f64,
    dw: u32,
    dh: u32,
    f: u8,
    adaptive: bool,
) -> Result<ModelResult, ModelSkip> {
    if dw == 0 || dh == 0 || !(cw > 0.0) || !(chh > 0.0) {
        return Err(ModelSkip::ZeroSize);
    }
    let mut hp = axis_plan(src.w as u32, l, cw, dw, f, adaptive)?;
    let mut vp = axis_plan(src.h as u32, t, chh, dh, f, adaptive)?;
    // work only on the part of the source the windows of both axes can touch (a 300,000-pixel-wide image
    // with a narrow crop would otherwise be resampled vertically in full)
    let (x0, x1) = plan_span(&hp, src.w);
    let (y0, y1) = plan_span(&vp, src.h);
    let sub;
    let src = if (x1 - x0) * (y1 - y0) < src.w * src.h {
        sub = restrict(src, x0, x1, y0, y1);
        shift_plan(&mut hp, x0);
        shift_plan(&mut vp, y0);
        &sub
    } else {
        src
    };
    let h_ident = matches!(hp, AxisPlan::Identity { .. });
    let v_ident = matches!(vp, AxisPlan::Identity { .. });
    let mut max_taps = 0;
    let mut amb = 0;
    for p in [&hp, &vp] {
        if let AxisPlan::Resample(w) = p {
            max_taps = max_taps.max(w.max_taps);
            amb += w.ambiguous_windows;
        }
    }
    let mut orders = Vec::new();
    let passes;
    if h_ident || v_ident {
        // at most one real pass: the order is immaterial
        let a = pass(src, &vp, 1, c);
        orders.push(pass(&a, &hp, 0, c));
        passes = if h_ident && v_ident {
            "none"
        } else if h_ident {
            "v"
        } else {
            "h"
        };
    } else {
        let a = pass(src, &vp, 1, c);
        orders.push(pass(&a, &hp, 0, c));
        let b = pass(src, &hp, 0, c);
        orders.push(pass(&b, &vp, 1, c));
        passes = "both";
    }
    Ok(ModelResult {
        orders,
        passes,
        max_taps,
        ambiguous_windows: amb,
    })
}

/// SuperSampling as documented: nearest-neighbour to an intermediate image of
/// round(crop / factor), factor = min(ws, hs) / m, only if factor > 1.2; then Convolution.
#[allow(clippy::too_many_arguments)]
pub fn supersample(
    src: &Grid,
    c: Comp,
    l: f64,
    t: f64,
    cw: f64,
    chh: f64,
    dw: u32,
    dh: u32,
    f: u8,
    m: u8,
) -> Result<(ModelResult, bool), ModelSkip> {
    if dw == 0 || dh == 0 || !(cw > 0.0) || !(chh > 0.0) {
        return Err(ModelSkip::ZeroSize);
    }
    let ws = cw / dw as f64;
    let hs = chh / dh as f64;
    let factor = ws.min(hs) / m as f64;
    if (factor - 1.2).abs() < 1e-12 {
        return Err(ModelSkip::AmbiguousSize);
    }
    if factor > 1.2 {
        let tw = cw / factor;
        let th = chh / factor;
        for v in [tw, th] {
            if ((v - v.floor()) - 0.5).abs() < 1e-9 {
                return Err(ModelSkip::AmbiguousSize);
            }
        }
        let (tw, th) = (tw.round() as u32, th.round() as u32);
        if tw == 0 || th == 0 {
            return Err(ModelSkip::ZeroSize);
        }
        let inter = nearest(src, l, t, cw, chh, tw, th);
        let r = convolve(&inter, c, 0.0, 0.0, tw as f64, th as f64, dw, dh, f, true)?;
        Ok((r, true))
    } else {
        Ok((convolve(src, c, l, t, cw, chh, dw, dh, f, true)?, false))
    }
}

/// Compares a destination (component values) with the allowed intervals.
/// Returns None if some order accepts every sample, else the first offending sample of the
/// best order: (index, value, lo, hi).
pub fn judge(res: &ModelResult, dst: &[f64]) -> Option<(usize, f64, f64, f64)> {
    let mut first: Option<(usize, f64, f64, f64)> = None;
    for g in &res.orders {
        let mut bad = None;
        for (i, &v) in dst.iter().enumerate() {
            if !(v >= g.lo[i] && v <= g.hi[i]) {
                bad = Some((i, v, g.lo[i], g.hi[i]));
                break;
            }
        }
        match bad {
            None => return None,
            Some(b) => {
                if first.is_none() {
                    first = Some(b);
                }
            }
        }
    }
    first
}
