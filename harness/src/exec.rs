//! Running decoded cases through the library.
use crate::img::{self, Buf, Placement};
use crate::runner::catch;
use crate::spec::ResizeSpec;

pub struct RunOut {
    pub dst: Buf,
    /// Ok / Err(documented error as text)
    pub result: Result<(), String>,
}

/// Runs one resize with a fresh Resizer through the dynamic API.
/// Outer Err = the library panicked (message).
pub fn run_resize(spec: &ResizeSpec, src: &[u8], sentinel: u8, dst_placement: Placement) -> Result<RunOut, String> {
    let len = spec.dw as usize * spec.dh as usize * spec.pt.size();
    let mut dst = Buf::placed(len, dst_placement);
    dst.fill(sentinel);
    let opts = spec.options();
    let res = catch(|| {
        let mut r = img::new_resizer(spec.ext);
        img::resize_bytes(
            &mut r,
            spec.pt,
            spec.sw,
            spec.sh,
            src,
            spec.dw,
            spec.dh,
            dst.bytes_mut(),
            &opts,
        )
    })?;
    Ok(RunOut { dst, result: res })
}

pub fn src_image(spec: &ResizeSpec, placement: Placement) -> Buf {
    img::make_image(spec.pt, spec.sw, spec.sh, spec.content, placement)
}
