//! Running decoded cases through the library.
use crate::img::{self, Buf, Placement};
use crate::runner::catch;
use crate::spec::ResizeSpec;

pub struct RunOut {
    pub dst: Buf,
    /// Ok / Err(documented error as text)
    pub result: Result<(), String>,
}

/// Runs one resize with a fresh Resizer through the dynamic API.
/// Outer Err = the library panicked (message).
pub fn run_resize(spec: &ResizeSpec, src: &[u8], sentinel: u8, dst_placement: Placement) -> Result<RunOut, String> {
    let len = spec.dw as usize * spec.dh as usize * spec.pt.size();
    let mut dst = Buf::placed(len, dst_placement);
    dst.fill(sentinel);
    let opts = spec.options();
    let res = catch(|| {
        let mut r = img::new_resizer(spec.ext);
        img::resize_bytes(
            &mut r,
            spec.pt,
            spec.sw,
            spec.sh,
            src,
            spec.dw,
            spec.dh,
            dst.bytes_mut(),
            &opts,
        )
    })?;
    Ok(RunOut { dst, result: res })
}

pub fn src_image(spec: &ResizeSpec, placement: Placement) -> Buf {
    img::make_image(spec.pt, spec.sw, spec.sh, spec.content, placement)
}

/// Runs `f` inside a rayon pool of `threads` threads (rayon builds), else directly.
#[cfg(feature = "rayon")]
pub fn in_pool<R: Send>(threads: u32, f: impl FnOnce() -> R + Send) -> R {
    if threads == 0 {
        return f();
    }
    match rayon::ThreadPoolBuilder::new().num_threads(threads as usize).build() {
        Ok(pool) => pool.install(f),
        Err(_) => f(),
    }
}

#[cfg(not(feature = "rayon"))]
pub fn in_pool<R: Send>(_threads: u32, f: impl FnOnce() -> R + Send) -> R {
    f()
}

pub fn has_rayon() -> bool {
    cfg!(feature = "rayon")
}

use std::sync::OnceLock;
static SRGB: OnceLock<fast_image_resize::PixelComponentMapper> = OnceLock::new();
static GAMMA22: OnceLock<fast_image_resize::PixelComponentMapper> = OnceLock::new();

pub fn srgb_mapper() -> &'static fast_image_resize::PixelComponentMapper {
    SRGB.get_or_init(fast_image_resize::create_srgb_mapper)
}
pub fn gamma22_mapper() -> &'static fast_image_resize::PixelComponentMapper {
    GAMMA22.get_or_init(fast_image_resize::create_gamma_22_mapper)
}
