pub mod exec;
pub mod img;
pub mod model;
pub mod outcome;
pub mod props;
pub mod runner;
pub mod spec;
pub mod tape;
