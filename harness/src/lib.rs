pub mod img;
pub mod outcome;
pub mod props;
pub mod runner;
pub mod spec;
pub mod tape;
