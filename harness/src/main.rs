use firv::outcome::Tier;
use firv::{props, runner};

fn usage() -> ! {
    eprintln!("usage: firv run <prop> [quick|thorough] [seed]\n       firv worker <prop> [quick|thorough]\n       firv replay <prop> <file>\n       firv list");
    std::process::exit(2);
}

fn tier_of(s: Option<&String>) -> Tier {
    match s.map(|s| s.as_str()) {
        Some("thorough") => Tier::Thorough,
        _ => Tier::Quick,
    }
}

fn main() {
    let args: Vec<String> = std::env::args().collect();
    if args.len() < 2 {
        usage();
    }
    match args[1].as_str() {
        "list" => {
            for p in props::all() {
                println!("{}", p.id);
            }
        }
        "builds" => {
            let Some(p) = args.get(2).and_then(|id| props::find(id)) else { usage() };
            for b in (p.builds)(tier_of(args.get(3))) {
                println!("{}", b.name());
            }
        }
        "worker" => {
            let Some(p) = args.get(2).and_then(|id| props::find(id)) else { usage() };
            std::process::exit(runner::worker_main(p, tier_of(args.get(3))));
        }
        "run" => {
            let Some(p) = args.get(2).and_then(|id| props::find(id)) else { usage() };
            let tier = tier_of(args.get(3));
            let seed = args
                .get(4)
                .and_then(|s| s.parse::<u64>().ok())
                .or_else(|| std::env::var("VERIF_SEED").ok().and_then(|s| s.parse().ok()))
                .unwrap_or(1);
            std::process::exit(runner::run_property(p, tier, seed));
        }
        "replay" => {
            let Some(p) = args.get(2).and_then(|id| props::find(id)) else { usage() };
            let Some(path) = args.get(3) else { usage() };
            std::process::exit(runner::replay(p, path, tier_of(args.get(4))));
        }
        _ => usage(),
    }
}
