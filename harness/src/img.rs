//! Pixel-type tables, aligned / guard-paged buffers, content generation and
//! thin wrappers for calling the library through its dynamic API.
use crate::tape::Mix;
use fast_image_resize as fr;
use fr::images::{Image, ImageRef};
use fr::{CpuExtensions, PixelType};

pub const PT13: [PixelType; 13] = [
    PixelType::U8,
    PixelType::U8x2,
    PixelType::U8x3,
    PixelType::U8x4,
    PixelType::U16,
    PixelType::U16x2,
    PixelType::U16x3,
    PixelType::U16x4,
    PixelType::I32,
    PixelType::F32,
    PixelType::F32x2,
    PixelType::F32x3,
    PixelType::F32x4,
];

pub const ALPHA_PTS: [PixelType; 6] = [
    PixelType::U8x2,
    PixelType::U8x4,
    PixelType::U16x2,
    PixelType::U16x4,
    PixelType::F32x2,
    PixelType::F32x4,
];

#[derive(Clone, Copy, Debug, PartialEq, Eq, Hash)]
pub enum Comp {
    U8,
    U16,
    I32,
    F32,
}

impl Comp {
    pub fn size(self) -> usize {
        match self {
            Comp::U8 => 1,
            Comp::U16 => 2,
            Comp::I32 | Comp::F32 => 4,
        }
    }
    /// maximum of the component range for the unsigned integer formats
    pub fn vmax(self) -> f64 {
        match self {
            Comp::U8 => 255.0,
            Comp::U16 => 65535.0,
            Comp::I32 => i32::MAX as f64,
            Comp::F32 => 1.0,
        }
    }
}

pub fn pt_name(pt: PixelType) -> &'static str {
    match pt {
        PixelType::U8 => "U8",
        PixelType::U8x2 => "U8x2",
        PixelType::U8x3 => "U8x3",
        PixelType::U8x4 => "U8x4",
        PixelType::U16 => "U16",
        PixelType::U16x2 => "U16x2",
        PixelType::U16x3 => "U16x3",
        PixelType::U16x4 => "U16x4",
        PixelType::I32 => "I32",
        PixelType::F32 => "F32",
        PixelType::F32x2 => "F32x2",
        PixelType::F32x3 => "F32x3",
        PixelType::F32x4 => "F32x4",
        _ => "?",
    }
}

pub fn pt_index(pt: PixelType) -> usize {
    PT13.iter().position(|p| *p == pt).unwrap_or(0)
}

pub fn comp(pt: PixelType) -> Comp {
    match pt {
        PixelType::U8 | PixelType::U8x2 | PixelType::U8x3 | PixelType::U8x4 => Comp::U8,
        PixelType::U16 | PixelType::U16x2 | PixelType::U16x3 | PixelType::U16x4 => Comp::U16,
        PixelType::I32 => Comp::I32,
        _ => Comp::F32,
    }
}

pub fn channels(pt: PixelType) -> usize {
    pt.size() / comp(pt).size()
}

pub fn has_alpha(pt: PixelType) -> bool {
    ALPHA_PTS.contains(&pt)
}

/// pixel type with `n` channels of component type `c`
pub fn pt_of(c: Comp, n: usize) -> Option<PixelType> {
    PT13.iter().copied().find(|p| comp(*p) == c && channels(*p) == n)
}

pub fn ext_name(e: CpuExtensions) -> &'static str {
    match e {
        CpuExtensions::None => "None",
        CpuExtensions::Sse4_1 => "Sse4_1",
        CpuExtensions::Avx2 => "Avx2",
    }
}

pub fn exts() -> Vec<CpuExtensions> {
    let mut v = vec![CpuExtensions::None];
    if CpuExtensions::Sse4_1.is_supported() {
        v.push(CpuExtensions::Sse4_1);
    }
    if CpuExtensions::Avx2.is_supported() {
        v.push(CpuExtensions::Avx2);
    }
    v
}

// ------------------------------------------------------------------ buffers

struct GuardMap {
    base: *mut u8,
    total: usize,
}

unsafe impl Send for GuardMap {}

impl Drop for GuardMap {
    fn drop(&mut self) {
        unsafe {
            libc::munmap(self.base as *mut libc::c_void, self.total);
        }
    }
}

enum Store {
    Heap(Vec<u64>),
    Guard(GuardMap),
}

/// A byte buffer whose start is aligned to 8 (plus an optional deliberate offset).
/// The guarded variants are carved out of an mmap region so that the buffer ends
/// (or starts) flush against a PROT_NONE page.
pub struct Buf {
    store: Store,
    off: usize,
    len: usize,
}

const PAGE: usize = 4096;

#[derive(Clone, Copy, Debug, PartialEq, Eq)]
pub enum Placement {
    Heap,
    GuardEnd,
    GuardStart,
}

impl Buf {
    pub fn new(len: usize) -> Buf {
        Buf::with_offset(len, 0)
    }

    /// Heap buffer whose first byte is `off` bytes past an 8-aligned address.
    pub fn with_offset(len: usize, off: usize) -> Buf {
        let words = (len + off + 7) / 8 + 1;
        Buf {
            store: Store::Heap(vec![0u64; words]),
            off,
            len,
        }
    }

    pub fn placed(len: usize, placement: Placement) -> Buf {
        match placement {
            Placement::Heap => Buf::new(len),
            Placement::GuardEnd => Buf::guarded(len, true),
            Placement::GuardStart => Buf::guarded(len, false),
        }
    }

    fn guarded(len: usize, flush_end: bool) -> Buf {
        let data_pages = (len + PAGE - 1) / PAGE + 1;
        let total = (data_pages + 2) * PAGE;
        unsafe {
            let base = libc::mmap(
                std::ptr::null_mut(),
                total,
                libc::PROT_READ | libc::PROT_WRITE,
                libc::MAP_PRIVATE | libc::MAP_ANONYMOUS,
                -1,
                0,
            );
            if base == libc::MAP_FAILED {
                return Buf::new(len);
            }
            let base = base as *mut u8;
            libc::mprotect(base as *mut libc::c_void, PAGE, libc::PROT_NONE);
            libc::mprotect(
                base.add(total - PAGE) as *mut libc::c_void,
                PAGE,
                libc::PROT_NONE,
            );
            let off = if flush_end {
                // keep 8-byte granularity only when len is a multiple of 8; otherwise flush exactly
                total - PAGE - len
            } else {
                PAGE
            };
            Buf {
                store: Store::Guard(GuardMap { base, total }),
                off,
                len,
            }
        }
    }

    pub fn len(&self) -> usize {
        self.len
    }

    pub fn is_empty(&self) -> bool {
        self.len == 0
    }

    pub fn bytes(&self) -> &[u8] {
        unsafe {
            match &self.store {
                Store::Heap(v) => {
                    std::slice::from_raw_parts((v.as_ptr() as *const u8).add(self.off), self.len)
                }
                Store::Guard(g) => std::slice::from_raw_parts(g.base.add(self.off), self.len),
            }
        }
    }

    pub fn bytes_mut(&mut self) -> &mut [u8] {
        unsafe {
            match &mut self.store {
                Store::Heap(v) => {
                    std::slice::from_raw_parts_mut((v.as_mut_ptr() as *mut u8).add(self.off), self.len)
                }
                Store::Guard(g) => std::slice::from_raw_parts_mut(g.base.add(self.off), self.len),
            }
        }
    }

    pub fn from_bytes(b: &[u8]) -> Buf {
        let mut r = Buf::new(b.len());
        r.bytes_mut().copy_from_slice(b);
        r
    }

    pub fn from_bytes_placed(b: &[u8], p: Placement) -> Buf {
        let mut r = Buf::placed(b.len(), p);
        r.bytes_mut().copy_from_slice(b);
        r
    }

    pub fn fill(&mut self, v: u8) {
        for x in self.bytes_mut() {
            *x = v;
        }
    }
}

// ------------------------------------------------------------------ component access

pub fn get_comp(c: Comp, bytes: &[u8], idx: usize) -> f64 {
    match c {
        Comp::U8 => bytes[idx] as f64,
        Comp::U16 => u16::from_ne_bytes([bytes[2 * idx], bytes[2 * idx + 1]]) as f64,
        Comp::I32 => i32::from_ne_bytes(bytes[4 * idx..4 * idx + 4].try_into().unwrap()) as f64,
        Comp::F32 => f32::from_ne_bytes(bytes[4 * idx..4 * idx + 4].try_into().unwrap()) as f64,
    }
}

pub fn set_comp(c: Comp, bytes: &mut [u8], idx: usize, v: f64) {
    match c {
        Comp::U8 => bytes[idx] = v as u8,
        Comp::U16 => bytes[2 * idx..2 * idx + 2].copy_from_slice(&(v as u16).to_ne_bytes()),
        Comp::I32 => bytes[4 * idx..4 * idx + 4].copy_from_slice(&(v as i32).to_ne_bytes()),
        Comp::F32 => bytes[4 * idx..4 * idx + 4].copy_from_slice(&(v as f32).to_ne_bytes()),
    }
}

pub fn comps_f64(pt: PixelType, bytes: &[u8]) -> Vec<f64> {
    let c = comp(pt);
    let n = bytes.len() / c.size();
    (0..n).map(|i| get_comp(c, bytes, i)).collect()
}

// ------------------------------------------------------------------ contents

#[derive(Clone, Copy, Debug, PartialEq)]
pub struct Content {
    /// 0 zero, 1 uniform random, 2 extremes, 3 checkerboard, 4 stripes, 5 impulse,
    /// 6 narrow band, 7 constant, 8 gradient, 9 float-wide / i32-signed-extremes
    pub class: u8,
    pub seed: u64,
}

pub const CONTENT_CLASSES: u32 = 10;
/// extra classes selected explicitly: 10 = runs of zero / opaque / near-opaque pixels, 11 = finite values with sparse inf / NaN (floats only)
pub const CONTENT_RUNS: u8 = 10;
pub const CONTENT_NONFINITE: u8 = 11;

impl Content {
    pub fn name(&self) -> &'static str {
        [
            "zero", "random", "extremes", "checker", "stripes", "impulse", "band", "constant",
            "gradient", "wide", "runs", "nonfinite",
        ][self.class.min(11) as usize]
    }
}

/// Range used for generated component values: (lo, hi)
fn value_range(c: Comp, wide: bool) -> (f64, f64) {
    match c {
        Comp::U8 => (0.0, 255.0),
        Comp::U16 => (0.0, 65535.0),
        Comp::I32 => (i32::MIN as f64, i32::MAX as f64),
        Comp::F32 => {
            if wide {
                (-1e30, 1e30)
            } else {
                (0.0, 1.0)
            }
        }
    }
}

/// Fills `bytes` (w*h pixels of `pt`) according to the content spec.
pub fn fill_content(pt: PixelType, w: u32, h: u32, content: Content, bytes: &mut [u8]) {
    let c = comp(pt);
    let nch = channels(pt);
    let (w, h) = (w as usize, h as usize);
    assert!(bytes.len() >= w * h * pt.size());
    let mut rng = Mix::new(content.seed);
    let wide = content.class == 9;
    let (lo, hi) = value_range(c, wide);
    let span = hi - lo;
    let rnd_val = |rng: &mut Mix| -> f64 {
        match c {
            Comp::F32 => {
                if wide {
                    // log-uniform magnitude with random sign
                    let e = rng.unit() * 60.0 - 30.0;
                    let m = 10f64.powf(e);
                    if rng.next() & 1 == 0 {
                        m
                    } else {
                        -m
                    }
                } else {
                    match rng.below(8) {
                        0 => rng.unit() * 2.0 - 0.5,
                        1 => (rng.unit() - 0.5) * 2e6,
                        _ => rng.unit(),
                    }
                }
            }
            _ => (lo + (rng.unit() * (span + 1.0)).floor()).min(hi),
        }
    };
    // per-class parameters
    let a = rnd_val(&mut rng);
    let b = rnd_val(&mut rng);
    let band_lo = a.min(b);
    let band_w = match c {
        Comp::F32 => (a - b).abs().min(1.0).max(1e-3) * 0.01,
        _ => 1.0 + rng.below(6) as f64,
    };
    let imp_x = rng.below(w.max(1) as u64) as usize;
    let imp_y = rng.below(h.max(1) as u64) as usize;
    let stripe_dir = rng.next() & 1;
    let stripe_period = 1 + rng.below(3) as usize;
    let (ext_lo, ext_hi) = match c {
        Comp::F32 => {
            if wide {
                (-1e30, 1e30)
            } else {
                (0.0, 1.0)
            }
        }
        _ => (lo, hi),
    };
    if content.class == CONTENT_RUNS {
        // runs of 1..48 pixels of one kind: all-zero pixel, opaque, near-opaque (alpha just below max),
        // constant pixel, random. For types without alpha the last channel is treated alike.
        let vmax = if c == Comp::F32 { 1.0 } else { hi };
        let mut left = 0usize;
        let mut kind = 0u64;
        let mut constant = vec![0.0f64; nch];
        for i in 0..w * h {
            if left == 0 {
                left = 1 + rng.below(48) as usize;
                kind = rng.below(6);
                for v in constant.iter_mut() {
                    *v = rnd_val(&mut rng);
                }
            }
            left -= 1;
            for ch in 0..nch {
                let last = ch == nch - 1;
                let v = match kind {
                    0 => 0.0,
                    1 => {
                        if last {
                            vmax
                        } else {
                            rnd_val(&mut rng)
                        }
                    }
                    2 => {
                        if last {
                            match c {
                                Comp::F32 => 1.0 - rng.unit() * 1e-3,
                                Comp::U16 => vmax - 1.0 - rng.below(255) as f64,
                                _ => (vmax - 1.0 - rng.below(3) as f64).max(lo),
                            }
                        } else {
                            rnd_val(&mut rng)
                        }
                    }
                    3 => constant[ch],
                    4 => {
                        if last {
                            0.0
                        } else {
                            rnd_val(&mut rng)
                        }
                    }
                    _ => rnd_val(&mut rng),
                };
                set_comp(c, bytes, i * nch + ch, v);
            }
        }
        return;
    }
    if content.class == CONTENT_NONFINITE && c == Comp::F32 {
        for i in 0..w * h * nch {
            let v = match rng.below(24) {
                0 => f64::INFINITY,
                1 => f64::NEG_INFINITY,
                2 => f64::NAN,
                _ => rng.unit(),
            };
            let idx = i;
            bytes[4 * idx..4 * idx + 4].copy_from_slice(&(v as f32).to_ne_bytes());
        }
        return;
    }
    for y in 0..h {
        for x in 0..w {
            for ch in 0..nch {
                let v = match content.class {
                    0 => 0.0,
                    1 | 9 => rnd_val(&mut rng),
                    2 => {
                        if rng.next() & 1 == 0 {
                            ext_lo
                        } else {
                            ext_hi
                        }
                    }
                    3 => {
                        if (x + y + ch) & 1 == 0 {
                            ext_hi
                        } else {
                            ext_lo
                        }
                    }
                    4 => {
                        let k = if stripe_dir == 0 { x } else { y };
                        if (k / stripe_period) & 1 == 0 {
                            ext_hi
                        } else {
                            ext_lo
                        }
                    }
                    5 => {
                        if x == imp_x && y == imp_y {
                            if a == 0.0 {
                                ext_hi
                            } else {
                                a
                            }
                        } else if c == Comp::I32 || wide {
                            0.0
                        } else {
                            ext_lo
                        }
                    }
                    6 => {
                        if c == Comp::F32 {
                            band_lo + rng.unit() * band_w
                        } else {
                            (band_lo + rng.below(band_w as u64 + 1) as f64).min(hi).max(lo)
                        }
                    }
                    7 => a,
                    _ => {
                        // gradient
                        let t = (x + y * 3 + ch * 7) as f64 / ((w + h * 3 + nch * 7) as f64);
                        match c {
                            Comp::F32 => lo + t * span,
                            _ => (lo + (t * span).floor()).min(hi),
                        }
                    }
                };
                let idx = (y * w + x) * nch + ch;
                set_comp(c, bytes, idx, v);
            }
        }
    }
}

pub fn make_image(pt: PixelType, w: u32, h: u32, content: Content, placement: Placement) -> Buf {
    let len = w as usize * h as usize * pt.size();
    let mut b = Buf::placed(len, placement);
    fill_content(pt, w, h, content, b.bytes_mut());
    b
}

// ------------------------------------------------------------------ library calls

pub fn new_resizer(ext: CpuExtensions) -> fr::Resizer {
    let mut r = fr::Resizer::new();
    unsafe { r.set_cpu_extensions(ext) };
    r
}

pub fn new_muldiv(ext: CpuExtensions) -> fr::MulDiv {
    let mut m = fr::MulDiv::new();
    unsafe { m.set_cpu_extensions(ext) };
    m
}

/// Resize `src` (sw×sh of `pt`) into `dst` (dw×dh) through the dynamic API.
#[allow(clippy::too_many_arguments)]
pub fn resize_bytes(
    resizer: &mut fr::Resizer,
    pt: PixelType,
    sw: u32,
    sh: u32,
    src: &[u8],
    dw: u32,
    dh: u32,
    dst: &mut [u8],
    opts: &fr::ResizeOptions,
) -> Result<(), String> {
    let s = ImageRef::new(sw, sh, src, pt).map_err(|e| format!("src: {:?}", e))?;
    let mut d = Image::from_slice_u8(dw, dh, dst, pt).map_err(|e| format!("dst: {:?}", e))?;
    resizer
        .resize(&s, &mut d, opts)
        .map_err(|e| format!("{:?}", e))
}

pub fn bytes_diff(a: &[u8], b: &[u8]) -> Option<usize> {
    if a.len() != b.len() {
        return Some(a.len().min(b.len()));
    }
    a.iter().zip(b).position(|(x, y)| x != y)
}
