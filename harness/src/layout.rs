//! Container / memory layouts: one logical w×h image placed in a parent buffer and exposed to the
//! library through the different container types (dynamic and typed, owned, borrowed, oversized,
//! cropped, nested-cropped).
use crate::img::{Buf, Placement};
use crate::tape::Tape;
use fast_image_resize as fr;
use fr::images::{
    CroppedImage, CroppedImageMut, Image, ImageRef, TypedCroppedImage, TypedCroppedImageMut, TypedImage,
    TypedImageRef,
};
use fr::{ImageView, ImageViewMut, IntoImageView, IntoImageViewMut, PixelTrait, PixelType};

#[derive(Clone, Copy, Debug, PartialEq, Eq, Hash)]
pub enum LKind {
    /// buffer of exactly w*h pixels, borrowed
    Plain,
    /// container owns its pixels (copied in, copied out)
    Owned,
    /// borrowed buffer with spare rows / spare bytes after the image
    Oversized,
    /// cropped view at (l,t) inside a pw×ph parent
    Cropped,
    /// cropped view inside a cropped view inside the parent
    Nested,
    /// (sources only) a CroppedImageMut used through its read-only interface
    CroppedMutAsSrc,
    /// (typed sources only) a user-defined ImageView whose rows are longer than `width()` - padded scan lines,
    /// which the trait's contract allows ("equal or greater than the image width")
    PaddedRows,
}

#[derive(Clone, Debug, PartialEq)]
pub struct Layout {
    pub kind: LKind,
    pub pw: u32,
    pub ph: u32,
    /// absolute position of the image inside the parent
    pub l: u32,
    pub t: u32,
    pub w: u32,
    pub h: u32,
    /// spare bytes after the parent's pw*ph pixels
    pub spare: usize,
    /// for Nested: the outer crop rectangle (l1,t1,w1,h1) in parent coordinates
    pub outer: (u32, u32, u32, u32),
    /// heap placement only: start the parent this many bytes (rounded down to the pixel alignment) past an
    /// 8-byte boundary, so that rows are aligned for the pixel type but not for wider vector types
    pub align_off: usize,
}

impl Layout {
    pub fn plain(w: u32, h: u32) -> Layout {
        Layout {
            kind: LKind::Plain,
            pw: w,
            ph: h,
            l: 0,
            t: 0,
            w,
            h,
            spare: 0,
            outer: (0, 0, w, h),
            align_off: 0,
        }
    }

    /// Decodes a layout for a w×h image. `kinds` = allowed kinds (first = simplest).
    pub fn decode(t: &mut Tape, w: u32, h: u32, kinds: &[LKind]) -> Layout {
        let kind = t.pick(kinds);
        let mut lay = Layout::plain(w, h);
        lay.kind = kind;
        match kind {
            LKind::Plain | LKind::Owned => {}
            LKind::Oversized => {
                lay.ph = h + t.range(0, 3);
                lay.spare = if lay.ph == h { t.range(1, 17) as usize } else { t.range(0, 9) as usize };
            }
            LKind::PaddedRows => {
                lay.pw = w + t.range(0, 6);
                lay.ph = h;
            }
            LKind::Cropped | LKind::CroppedMutAsSrc => {
                let ml = t.range(0, 5);
                let mr = t.range(0, 5);
                let mt = t.range(0, 4);
                let mb = t.range(0, 4);
                lay.pw = w + ml + mr;
                lay.ph = h + mt + mb;
                lay.l = ml;
                lay.t = mt;
                if w == 0 || h == 0 {
                    // the library rejects a crop whose origin is on the far edge
                    lay.pw = lay.pw.max(lay.l + 1);
                    lay.ph = lay.ph.max(lay.t + 1);
                }
                lay.outer = (0, 0, lay.pw, lay.ph);
            }
            LKind::Nested => {
                let (ml, mr, mt, mb) = (t.range(0, 3), t.range(0, 3), t.range(0, 3), t.range(0, 3));
                let (il, ir, it, ib) = (t.range(0, 3), t.range(0, 3), t.range(0, 2), t.range(0, 2));
                let w1 = w + il + ir;
                let h1 = h + it + ib;
                let (w1, h1) = if w == 0 || h == 0 { (w1.max(il + 1), h1.max(it + 1)) } else { (w1, h1) };
                lay.pw = w1 + ml + mr;
                lay.ph = h1 + mt + mb;
                lay.outer = (ml, mt, w1, h1);
                lay.l = ml + il;
                lay.t = mt + it;
            }
        }
        lay.align_off = [0usize, 0, 0, 0, 4, 8, 12, 2, 6, 1, 3][t.below(11) as usize];
        lay
    }

    pub fn desc(&self) -> String {
        let base = self.desc_kind();
        if self.align_off != 0 {
            format!("{} @+{}", base, self.align_off)
        } else {
            base
        }
    }

    fn desc_kind(&self) -> String {
        match self.kind {
            LKind::Plain => "plain".to_string(),
            LKind::Owned => "owned".to_string(),
            LKind::Oversized => format!("oversized(+{} rows, +{} bytes)", self.ph - self.h, self.spare),
            LKind::Cropped => format!("cropped(at {},{} in {}x{})", self.l, self.t, self.pw, self.ph),
            LKind::CroppedMutAsSrc => format!("CroppedImageMut-as-source(at {},{} in {}x{})", self.l, self.t, self.pw, self.ph),
            LKind::PaddedRows => format!("user-defined view with rows of {} pixels for width {}", self.pw, self.w),
            LKind::Nested => format!(
                "nested(at {},{} via outer {:?} in {}x{})",
                self.l, self.t, self.outer, self.pw, self.ph
            ),
        }
    }

    pub fn strided(&self) -> bool {
        self.pw != self.w
    }

    pub fn parent_len(&self, ps: usize) -> usize {
        self.pw as usize * self.ph as usize * ps + self.spare
    }

    fn row_off(&self, ps: usize, y: u32) -> usize {
        ((self.t + y) as usize * self.pw as usize + self.l as usize) * ps
    }

    /// Builds the parent buffer: `content` (w*h pixels) inside, `filler(i)` elsewhere.
    pub fn place(&self, ps: usize, content: &[u8], filler: impl Fn(usize) -> u8, placement: Placement) -> Buf {
        // a buffer flush against the end guard page is only aligned if its length is
        let placement = if placement == Placement::GuardEnd && self.parent_len(ps) % 4 != 0 {
            Placement::GuardStart
        } else {
            placement
        };
        let mut b = if placement == Placement::Heap && self.align_off != 0 {
            let a = (ps & ps.wrapping_neg()).min(4).max(1);
            Buf::with_offset(self.parent_len(ps), self.align_off / a * a)
        } else {
            Buf::placed(self.parent_len(ps), placement)
        };
        {
            let bytes = b.bytes_mut();
            for (i, x) in bytes.iter_mut().enumerate() {
                *x = filler(i);
            }
            let rl = self.w as usize * ps;
            for y in 0..self.h {
                let off = self.row_off(ps, y);
                bytes[off..off + rl].copy_from_slice(&content[y as usize * rl..(y as usize + 1) * rl]);
            }
        }
        b
    }

    pub fn extract(&self, ps: usize, parent: &[u8]) -> Vec<u8> {
        let rl = self.w as usize * ps;
        let mut out = Vec::with_capacity(rl * self.h as usize);
        for y in 0..self.h {
            let off = self.row_off(ps, y);
            out.extend_from_slice(&parent[off..off + rl]);
        }
        out
    }

    /// First byte outside the image rectangle that differs from `filler(i)`.
    pub fn outside_changed(&self, ps: usize, parent: &[u8], filler: impl Fn(usize) -> u8) -> Option<usize> {
        let rl = self.w as usize * ps;
        let stride = self.pw as usize * ps;
        let first = self.row_off(ps, 0);
        for (i, &b) in parent.iter().enumerate() {
            let inside = if rl == 0 || self.h == 0 || i < first {
                false
            } else {
                let rel = i - first;
                let row = rel / stride.max(1);
                let col = rel % stride.max(1);
                row < self.h as usize && col < rl
            };
            if !inside && b != filler(i) {
                return Some(i);
            }
        }
        None
    }

    /// Describes a byte offset of the parent in image terms.
    pub fn locate(&self, ps: usize, off: usize) -> String {
        let px = off / ps;
        let total = self.pw as usize * self.ph as usize;
        if px >= total {
            format!("spare byte {} after the parent's pixels", off - total * ps)
        } else {
            let (x, y) = (px % self.pw.max(1) as usize, px / self.pw.max(1) as usize);
            format!(
                "parent pixel (x={}, y={}) = view-relative ({}, {})",
                x,
                y,
                x as i64 - self.l as i64,
                y as i64 - self.t as i64
            )
        }
    }
}

pub const DYN_SRC_KINDS: [LKind; 6] = [
    LKind::Plain,
    LKind::Owned,
    LKind::Oversized,
    LKind::Cropped,
    LKind::Nested,
    LKind::CroppedMutAsSrc,
];
pub const DYN_DST_KINDS: [LKind; 5] = [LKind::Plain, LKind::Owned, LKind::Oversized, LKind::Cropped, LKind::Nested];

// ------------------------------------------------------------------ dynamic containers

pub trait SrcOp {
    type Out;
    fn run<S: IntoImageView + Sync>(self, src: &S) -> Self::Out;
}

pub trait DstOp {
    type Out;
    fn run<D: IntoImageViewMut + Send>(self, dst: &mut D) -> Self::Out;
}

fn e2s<E: std::fmt::Debug>(e: E) -> String {
    format!("{:?}", e)
}

/// Exposes the image of `lay` inside `parent` as a dynamic source container.
pub fn with_src_dyn<O: SrcOp>(lay: &Layout, pt: PixelType, parent: &[u8], op: O) -> Result<O::Out, String> {
    match lay.kind {
        LKind::Plain | LKind::Oversized => {
            let s = ImageRef::new(lay.w, lay.h, parent, pt).map_err(e2s)?;
            Ok(op.run(&s))
        }
        LKind::Owned => match Image::from_vec_u8(lay.w, lay.h, parent.to_vec(), pt) {
            Ok(s) => Ok(op.run(&s)),
            Err(_) => {
                // Vec<u8> happened to be misaligned for the pixel type: borrow instead
                let s = ImageRef::new(lay.w, lay.h, parent, pt).map_err(e2s)?;
                Ok(op.run(&s))
            }
        },
        LKind::Cropped | LKind::PaddedRows => {
            let p = ImageRef::new(lay.pw, lay.ph, parent, pt).map_err(e2s)?;
            let c = CroppedImage::new(&p, lay.l, lay.t, lay.w, lay.h).map_err(e2s)?;
            Ok(op.run(&c))
        }
        LKind::CroppedMutAsSrc => {
            // needs a mutable parent: work on an aligned copy
            let mut copy = Buf::from_bytes(parent);
            let mut p = Image::from_slice_u8(lay.pw, lay.ph, copy.bytes_mut(), pt).map_err(e2s)?;
            let c = CroppedImageMut::new(&mut p, lay.l, lay.t, lay.w, lay.h).map_err(e2s)?;
            Ok(op.run(&c))
        }
        LKind::Nested => {
            let p = ImageRef::new(lay.pw, lay.ph, parent, pt).map_err(e2s)?;
            let (l1, t1, w1, h1) = lay.outer;
            let c1 = CroppedImage::new(&p, l1, t1, w1, h1).map_err(e2s)?;
            let c2 = CroppedImage::new(&c1, lay.l - l1, lay.t - t1, lay.w, lay.h).map_err(e2s)?;
            Ok(op.run(&c2))
        }
    }
}

/// Exposes the image of `lay` inside `parent` as a dynamic destination container.
pub fn with_dst_dyn<O: DstOp>(lay: &Layout, pt: PixelType, parent: &mut [u8], op: O) -> Result<O::Out, String> {
    match lay.kind {
        LKind::Plain | LKind::Oversized | LKind::CroppedMutAsSrc => {
            let mut d = Image::from_slice_u8(lay.w, lay.h, parent, pt).map_err(e2s)?;
            Ok(op.run(&mut d))
        }
        LKind::Owned => match Image::from_vec_u8(lay.w, lay.h, parent.to_vec(), pt) {
            Ok(mut d) => {
                let r = op.run(&mut d);
                let b = d.buffer();
                parent[..b.len()].copy_from_slice(b);
                Ok(r)
            }
            Err(_) => {
                let mut d = Image::from_slice_u8(lay.w, lay.h, parent, pt).map_err(e2s)?;
                Ok(op.run(&mut d))
            }
        },
        LKind::Cropped | LKind::PaddedRows => {
            let mut p = Image::from_slice_u8(lay.pw, lay.ph, parent, pt).map_err(e2s)?;
            let mut c = CroppedImageMut::new(&mut p, lay.l, lay.t, lay.w, lay.h).map_err(e2s)?;
            Ok(op.run(&mut c))
        }
        LKind::Nested => {
            let mut p = Image::from_slice_u8(lay.pw, lay.ph, parent, pt).map_err(e2s)?;
            let (l1, t1, w1, h1) = lay.outer;
            let mut c1 = CroppedImageMut::new(&mut p, l1, t1, w1, h1).map_err(e2s)?;
            let mut c2 = CroppedImageMut::new(&mut c1, lay.l - l1, lay.t - t1, lay.w, lay.h).map_err(e2s)?;
            Ok(op.run(&mut c2))
        }
    }
}

// ------------------------------------------------------------------ typed containers

/// A minimal user-defined view: row y = pixels[y*stride .. (y+1)*stride], i.e. longer than `width`.
pub struct PaddedView<'a, P> {
    pub width: u32,
    pub height: u32,
    pub stride: usize,
    pub pixels: &'a [P],
}

unsafe impl<'a, P: PixelTrait> ImageView for PaddedView<'a, P> {
    type Pixel = P;
    fn width(&self) -> u32 {
        self.width
    }
    fn height(&self) -> u32 {
        self.height
    }
    fn iter_rows(&self, start_row: u32) -> impl Iterator<Item = &[P]> {
        let stride = self.stride.max(1);
        self.pixels
            .chunks_exact(stride)
            .take(if self.stride == 0 { 0 } else { self.height as usize })
            .skip(start_row as usize)
    }
}

pub trait TSrcOp<P: PixelTrait> {
    type Out;
    fn run<S: ImageView<Pixel = P>>(self, src: &S) -> Self::Out;
}

pub trait TDstOp<P: PixelTrait> {
    type Out;
    fn run<D: ImageViewMut<Pixel = P>>(self, dst: &mut D) -> Self::Out;
}

fn as_pixels<P: PixelTrait>(bytes: &[u8]) -> Result<&[P], String> {
    let (head, mid, _) = unsafe { bytes.align_to::<P>() };
    if !head.is_empty() {
        return Err("harness buffer misaligned".to_string());
    }
    Ok(mid)
}

fn as_pixels_mut<P: PixelTrait>(bytes: &mut [u8]) -> Result<&mut [P], String> {
    let (head, mid, _) = unsafe { bytes.align_to_mut::<P>() };
    if !head.is_empty() {
        return Err("harness buffer misaligned".to_string());
    }
    Ok(mid)
}

/// `variant` selects among equivalent constructors (from_buffer / new(pixels) / owned view vs borrowed view).
pub fn with_src_typed<P: PixelTrait, O: TSrcOp<P>>(
    lay: &Layout,
    variant: u8,
    parent: &[u8],
    op: O,
) -> Result<O::Out, String> {
    match lay.kind {
        LKind::Plain | LKind::Oversized => {
            if variant % 2 == 0 {
                let s = TypedImageRef::<P>::from_buffer(lay.w, lay.h, parent).map_err(e2s)?;
                Ok(op.run(&s))
            } else {
                let s = TypedImageRef::<P>::new(lay.w, lay.h, as_pixels::<P>(parent)?).map_err(e2s)?;
                Ok(op.run(&s))
            }
        }
        LKind::Owned => {
            let px = as_pixels::<P>(parent)?.to_vec();
            let s = TypedImage::<P>::from_pixels(lay.w, lay.h, px).map_err(e2s)?;
            Ok(op.run(&s))
        }
        LKind::PaddedRows => {
            let v = PaddedView::<P> {
                width: lay.w,
                height: lay.h,
                stride: lay.pw as usize,
                pixels: as_pixels::<P>(parent)?,
            };
            Ok(op.run(&v))
        }
        LKind::CroppedMutAsSrc => {
            let mut copy = Buf::from_bytes(parent);
            let mut p = TypedImage::<P>::from_buffer(lay.pw, lay.ph, copy.bytes_mut()).map_err(e2s)?;
            let c = TypedCroppedImageMut::from_ref(&mut p, lay.l, lay.t, lay.w, lay.h).map_err(e2s)?;
            Ok(op.run(&c))
        }
        LKind::Cropped => {
            let p = TypedImageRef::<P>::from_buffer(lay.pw, lay.ph, parent).map_err(e2s)?;
            if variant % 2 == 0 {
                let c = TypedCroppedImage::from_ref(&p, lay.l, lay.t, lay.w, lay.h).map_err(e2s)?;
                Ok(op.run(&c))
            } else {
                let c = TypedCroppedImage::new(p, lay.l, lay.t, lay.w, lay.h).map_err(e2s)?;
                Ok(op.run(&c))
            }
        }
        LKind::Nested => {
            let p = TypedImageRef::<P>::from_buffer(lay.pw, lay.ph, parent).map_err(e2s)?;
            let (l1, t1, w1, h1) = lay.outer;
            let c1 = TypedCroppedImage::from_ref(&p, l1, t1, w1, h1).map_err(e2s)?;
            if variant % 2 == 0 {
                let c2 = TypedCroppedImage::from_ref(&c1, lay.l - l1, lay.t - t1, lay.w, lay.h).map_err(e2s)?;
                Ok(op.run(&c2))
            } else {
                let c2 = TypedCroppedImage::new(c1, lay.l - l1, lay.t - t1, lay.w, lay.h).map_err(e2s)?;
                Ok(op.run(&c2))
            }
        }
    }
}

pub fn with_dst_typed<P: PixelTrait, O: TDstOp<P>>(
    lay: &Layout,
    variant: u8,
    parent: &mut [u8],
    op: O,
) -> Result<O::Out, String> {
    match lay.kind {
        LKind::Plain | LKind::Oversized | LKind::CroppedMutAsSrc => {
            if variant % 2 == 0 {
                let mut d = TypedImage::<P>::from_buffer(lay.w, lay.h, parent).map_err(e2s)?;
                Ok(op.run(&mut d))
            } else {
                let mut d = TypedImage::<P>::from_pixels_slice(lay.w, lay.h, as_pixels_mut::<P>(parent)?).map_err(e2s)?;
                Ok(op.run(&mut d))
            }
        }
        LKind::Owned => {
            let px = as_pixels::<P>(parent)?.to_vec();
            let mut d = TypedImage::<P>::from_pixels(lay.w, lay.h, px).map_err(e2s)?;
            let r = op.run(&mut d);
            let out = d.pixels();
            let dstp = as_pixels_mut::<P>(parent)?;
            dstp[..out.len()].copy_from_slice(out);
            Ok(r)
        }
        LKind::Cropped | LKind::PaddedRows => {
            let mut p = TypedImage::<P>::from_buffer(lay.pw, lay.ph, parent).map_err(e2s)?;
            if variant % 2 == 0 {
                let mut c = TypedCroppedImageMut::from_ref(&mut p, lay.l, lay.t, lay.w, lay.h).map_err(e2s)?;
                Ok(op.run(&mut c))
            } else {
                let mut c = TypedCroppedImageMut::new(p, lay.l, lay.t, lay.w, lay.h).map_err(e2s)?;
                Ok(op.run(&mut c))
            }
        }
        LKind::Nested => {
            let mut p = TypedImage::<P>::from_buffer(lay.pw, lay.ph, parent).map_err(e2s)?;
            let (l1, t1, w1, h1) = lay.outer;
            let mut c1 = TypedCroppedImageMut::from_ref(&mut p, l1, t1, w1, h1).map_err(e2s)?;
            if variant % 2 == 0 {
                let mut c2 =
                    TypedCroppedImageMut::from_ref(&mut c1, lay.l - l1, lay.t - t1, lay.w, lay.h).map_err(e2s)?;
                Ok(op.run(&mut c2))
            } else {
                let mut c2 = TypedCroppedImageMut::new(c1, lay.l - l1, lay.t - t1, lay.w, lay.h).map_err(e2s)?;
                Ok(op.run(&mut c2))
            }
        }
    }
}
