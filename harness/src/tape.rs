//! The single input format: a byte "tape" read by hand-written decoders.
//!
//! Exhausted tape reads as zeros, and every helper maps smaller bytes to
//! "simpler" alternatives monotonically (never `%`), so that shrinking a tape
//! (removing bytes / lowering bytes) simplifies the decoded case.

#[derive(Clone)]
pub struct Tape<'a> {
    data: &'a [u8],
    pos: usize,
}

impl<'a> Tape<'a> {
    pub fn new(data: &'a [u8]) -> Self {
        Self { data, pos: 0 }
    }

    pub fn pos(&self) -> usize {
        self.pos
    }

    pub fn exhausted(&self) -> bool {
        self.pos >= self.data.len()
    }

    pub fn remaining(&self) -> usize {
        self.data.len().saturating_sub(self.pos)
    }

    pub fn u8(&mut self) -> u8 {
        let v = self.data.get(self.pos).copied().unwrap_or(0);
        self.pos += 1;
        v
    }

    pub fn u16(&mut self) -> u16 {
        // big-endian: the first byte is the most significant, so lowering any
        // byte lowers the value
        let hi = self.u8() as u16;
        let lo = self.u8() as u16;
        (hi << 8) | lo
    }

    pub fn u32(&mut self) -> u32 {
        let hi = self.u16() as u32;
        let lo = self.u16() as u32;
        (hi << 16) | lo
    }

    pub fn u64(&mut self) -> u64 {
        let hi = self.u32() as u64;
        let lo = self.u32() as u64;
        (hi << 32) | lo
    }

    /// `true` with probability 1/2; zero byte = false.
    pub fn bool(&mut self) -> bool {
        self.u8() >= 128
    }

    /// `true` with probability `num`/256.
    pub fn chance(&mut self, num: u32) -> bool {
        (self.u8() as u32) >= 256 - num.min(256)
    }

    /// Uniform in `0..n` (n ≤ 256), monotone in the byte.
    pub fn below(&mut self, n: u32) -> u32 {
        debug_assert!(n >= 1 && n <= 256);
        (self.u8() as u32 * n) >> 8
    }

    /// Uniform in `0..n` for n up to 65 536, monotone in the two bytes.
    pub fn below16(&mut self, n: u32) -> u32 {
        debug_assert!(n >= 1 && n <= 65536);
        ((self.u16() as u64 * n as u64) >> 16) as u32
    }

    /// Uniform in `0..n` for any n ≥ 1, monotone in the four bytes.
    pub fn below32(&mut self, n: u64) -> u64 {
        debug_assert!(n >= 1 && n <= (1u64 << 32));
        (self.u32() as u64 * n) >> 32
    }

    /// Uniform in `lo..=hi`, picks the narrowest encoding.
    pub fn range(&mut self, lo: u32, hi: u32) -> u32 {
        debug_assert!(lo <= hi);
        let n = (hi - lo) as u64 + 1;
        if n <= 256 {
            lo + self.below(n as u32)
        } else if n <= 65536 {
            lo + self.below16(n as u32)
        } else {
            lo + self.below32(n) as u32
        }
    }

    pub fn pick<T: Copy>(&mut self, items: &[T]) -> T {
        let i = self.below(items.len() as u32) as usize;
        items[i]
    }

    /// Index drawn with the given integer weights (sum ≤ 256·k is fine), monotone.
    pub fn weighted(&mut self, weights: &[u32]) -> usize {
        let total: u32 = weights.iter().sum();
        let x = ((self.u16() as u64 * total as u64) >> 16) as u32;
        let mut acc = 0;
        for (i, w) in weights.iter().enumerate() {
            acc += w;
            if x < acc {
                return i;
            }
        }
        weights.len() - 1
    }

    /// f64 in [0,1) with 32 bits, monotone.
    pub fn unit(&mut self) -> f64 {
        self.u32() as f64 / 4294967296.0
    }

    /// f64 in [0,1] with 16 bits where 0xFFFF maps to exactly 1.0.
    pub fn unit16(&mut self) -> f64 {
        self.u16() as f64 / 65535.0
    }
}

/// SplitMix64: content expansion of a tape-provided seed (pure function of the tape).
#[derive(Clone)]
pub struct Mix(pub u64);

impl Mix {
    pub fn new(seed: u64) -> Self {
        Mix(seed ^ 0x9E37_79B9_7F4A_7C15)
    }
    pub fn next(&mut self) -> u64 {
        self.0 = self.0.wrapping_add(0x9E37_79B9_7F4A_7C15);
        let mut z = self.0;
        z = (z ^ (z >> 30)).wrapping_mul(0xBF58_476D_1CE4_E5B9);
        z = (z ^ (z >> 27)).wrapping_mul(0x94D0_49BB_1331_11EB);
        z ^ (z >> 31)
    }
    pub fn below(&mut self, n: u64) -> u64 {
        ((self.next() >> 32) * n) >> 32
    }
    pub fn unit(&mut self) -> f64 {
        (self.next() >> 11) as f64 / (1u64 << 53) as f64
    }
}

pub fn fnv(data: &[u8]) -> u64 {
    let mut h: u64 = 0xcbf2_9ce4_8422_2325;
    for &b in data {
        h ^= b as u64;
        h = h.wrapping_mul(0x0100_0000_01b3);
    }
    h
}

pub fn hex(data: &[u8]) -> String {
    let mut s = String::with_capacity(data.len() * 2);
    for b in data {
        s.push_str(&format!("{:02x}", b));
    }
    s
}

pub fn unhex(s: &str) -> Option<Vec<u8>> {
    let s = s.trim();
    if s.len() % 2 != 0 {
        return None;
    }
    let mut out = Vec::with_capacity(s.len() / 2);
    let b = s.as_bytes();
    for i in (0..b.len()).step_by(2) {
        let h = (b[i] as char).to_digit(16)?;
        let l = (b[i + 1] as char).to_digit(16)?;
        out.push((h * 16 + l) as u8);
    }
    Some(out)
}
