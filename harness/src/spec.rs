//! Decoded case descriptions shared by the resize-based properties, and their tape decoders.
use crate::img::{self, Content, CONTENT_CLASSES};
use crate::tape::Tape;
use fast_image_resize as fr;
use fr::{CpuExtensions, PixelType};
use std::sync::RwLock;

pub const BUILTIN_NAMES: [&str; 7] = [
    "Box",
    "Bilinear",
    "Hamming",
    "CatmullRom",
    "Mitchell",
    "Gaussian",
    "Lanczos3",
];

/// A custom kernel: piecewise linear (or piecewise constant) in |x| over 8 segments of
/// [0, support], optionally with different values for negative x.
#[derive(Clone, Copy, Debug, PartialEq)]
pub struct CustomParams {
    pub support: f64,
    pub pts: [f64; 9],
    pub step: bool,
    /// multiply the kernel by this factor for x < 0 (1.0 = symmetric)
    pub neg_scale: f64,
}

impl CustomParams {
    pub const fn zero() -> Self {
        CustomParams {
            support: 1.0,
            pts: [0.0; 9],
            step: false,
            neg_scale: 1.0,
        }
    }
    pub fn eval(&self, x: f64) -> f64 {
        let ax = x.abs();
        if !(ax < self.support) {
            return 0.0;
        }
        let pos = ax / self.support * 8.0;
        let i = (pos.floor() as usize).min(7);
        let v = if self.step {
            self.pts[i]
        } else {
            let f = pos - i as f64;
            self.pts[i] * (1.0 - f) + self.pts[i + 1] * f
        };
        if x < 0.0 {
            v * self.neg_scale
        } else {
            v
        }
    }
}

static CUSTOM: RwLock<CustomParams> = RwLock::new(CustomParams::zero());

fn custom_filter_fn(x: f64) -> f64 {
    CUSTOM.read().map(|p| p.eval(x)).unwrap_or(0.0)
}

#[derive(Clone, Copy, Debug, PartialEq)]
pub enum FilterSpec {
    Builtin(u8),
    Custom(CustomParams),
}

impl FilterSpec {
    pub fn name(&self) -> String {
        match self {
            FilterSpec::Builtin(i) => BUILTIN_NAMES[*i as usize].to_string(),
            FilterSpec::Custom(p) => format!(
                "Custom(support={}, pts={:?}, step={}, neg_scale={})",
                p.support, p.pts, p.step, p.neg_scale
            ),
        }
    }
    pub fn short(&self) -> String {
        match self {
            FilterSpec::Builtin(i) => BUILTIN_NAMES[*i as usize].to_string(),
            FilterSpec::Custom(_) => "Custom".to_string(),
        }
    }
    /// Installs the custom parameters (process-global; workers handle one case at a time)
    /// and returns the library's filter type.
    pub fn to_fr(&self) -> fr::FilterType {
        match self {
            FilterSpec::Builtin(0) => fr::FilterType::Box,
            FilterSpec::Builtin(1) => fr::FilterType::Bilinear,
            FilterSpec::Builtin(2) => fr::FilterType::Hamming,
            FilterSpec::Builtin(3) => fr::FilterType::CatmullRom,
            FilterSpec::Builtin(4) => fr::FilterType::Mitchell,
            FilterSpec::Builtin(5) => fr::FilterType::Gaussian,
            FilterSpec::Builtin(_) => fr::FilterType::Lanczos3,
            FilterSpec::Custom(p) => {
                *CUSTOM.write().unwrap() = *p;
                match fr::Filter::new("custom", custom_filter_fn, p.support) {
                    Ok(f) => fr::FilterType::Custom(f),
                    Err(_) => fr::FilterType::Box,
                }
            }
        }
    }
}

#[derive(Clone, Copy, Debug, PartialEq)]
pub enum AlgSpec {
    Nearest,
    Conv(FilterSpec),
    Interp(FilterSpec),
    Super(FilterSpec, u8),
}

impl AlgSpec {
    pub fn to_fr(&self) -> fr::ResizeAlg {
        match self {
            AlgSpec::Nearest => fr::ResizeAlg::Nearest,
            AlgSpec::Conv(f) => fr::ResizeAlg::Convolution(f.to_fr()),
            AlgSpec::Interp(f) => fr::ResizeAlg::Interpolation(f.to_fr()),
            AlgSpec::Super(f, m) => fr::ResizeAlg::SuperSampling(f.to_fr(), *m),
        }
    }
    pub fn filter(&self) -> Option<FilterSpec> {
        match self {
            AlgSpec::Nearest => None,
            AlgSpec::Conv(f) | AlgSpec::Interp(f) | AlgSpec::Super(f, _) => Some(*f),
        }
    }
    pub fn kind(&self) -> &'static str {
        match self {
            AlgSpec::Nearest => "Nearest",
            AlgSpec::Conv(_) => "Convolution",
            AlgSpec::Interp(_) => "Interpolation",
            AlgSpec::Super(_, _) => "SuperSampling",
        }
    }
    pub fn name(&self) -> String {
        match self {
            AlgSpec::Nearest => "Nearest".to_string(),
            AlgSpec::Conv(f) => format!("Convolution({})", f.name()),
            AlgSpec::Interp(f) => format!("Interpolation({})", f.name()),
            AlgSpec::Super(f, m) => format!("SuperSampling({}, {})", f.name(), m),
        }
    }
}

#[derive(Clone, Copy, Debug, PartialEq)]
pub enum CropSpec {
    None,
    Box { l: f64, t: f64, w: f64, h: f64 },
    Fit(f64, f64),
}

#[derive(Clone, Debug, PartialEq)]
pub struct ResizeSpec {
    pub pt: PixelType,
    pub sw: u32,
    pub sh: u32,
    pub dw: u32,
    pub dh: u32,
    pub crop: CropSpec,
    pub crop_class: (u8, u8),
    pub alg: AlgSpec,
    pub use_alpha: bool,
    pub ext: CpuExtensions,
    pub content: Content,
}

impl ResizeSpec {
    pub fn options(&self) -> fr::ResizeOptions {
        let mut o = fr::ResizeOptions::new()
            .resize_alg(self.alg.to_fr())
            .use_alpha(self.use_alpha);
        match self.crop {
            CropSpec::None => {}
            CropSpec::Box { l, t, w, h } => o = o.crop(l, t, w, h),
            CropSpec::Fit(cx, cy) => o = o.fit_into_destination(Some((cx, cy))),
        }
        o
    }

    /// The crop box the call resolves to (whole image if none).
    pub fn crop_box(&self) -> (f64, f64, f64, f64) {
        match self.crop {
            CropSpec::None => (0.0, 0.0, self.sw as f64, self.sh as f64),
            CropSpec::Box { l, t, w, h } => (l, t, w, h),
            CropSpec::Fit(cx, cy) => {
                let c = fr::CropBox::fit_src_into_dst_size(
                    self.sw,
                    self.sh,
                    self.dw,
                    self.dh,
                    Some((cx, cy)),
                );
                (c.left, c.top, c.width, c.height)
            }
        }
    }

    pub fn desc(&self) -> String {
        let crop = match self.crop {
            CropSpec::None => "none".to_string(),
            CropSpec::Box { l, t, w, h } => format!("crop({:?},{:?},{:?},{:?})", l, t, w, h),
            CropSpec::Fit(cx, cy) => format!("fit({:?},{:?})", cx, cy),
        };
        format!(
            "{} {}x{} -> {}x{} {} alg={} alpha={} ext={} content={}#{:x}",
            img::pt_name(self.pt),
            self.sw,
            self.sh,
            self.dw,
            self.dh,
            crop,
            self.alg.name(),
            self.use_alpha,
            img::ext_name(self.ext),
            self.content.name(),
            self.content.seed
        )
    }

    /// Does this call take the copy fast path (destination size == integer crop)?
    pub fn is_copy(&self) -> bool {
        let (l, t, w, h) = self.crop_box();
        l == l.round()
            && t == t.round()
            && w == w.round()
            && h == h.round()
            && self.dw as f64 == w
            && self.dh as f64 == h
    }

    pub fn need_h(&self) -> bool {
        let (l, _, w, _) = self.crop_box();
        self.dw as f64 != w || l != l.round()
    }

    pub fn need_v(&self) -> bool {
        let (_, t, _, h) = self.crop_box();
        self.dh as f64 != h || t != t.round()
    }
}

/// Knobs of the shared decoder.
#[derive(Clone)]
pub struct Profile {
    pub pts: Vec<PixelType>,
    /// weights of the size classes: 1 | 2..9 | 10..70 | 71..300 | long 1-D
    pub size_weights: [u32; 5],
    pub long_max: u32,
    pub allow_nearest: bool,
    pub allow_custom: bool,
    /// builtin filters allowed (indices)
    pub filters: Vec<u8>,
    pub max_multiplicity: u8,
    /// weights of the crop classes: none | crop
    pub crop_weights: [u32; 2],
    pub allow_fit: bool,
    pub content_classes: Vec<u8>,
    pub exts: Vec<CpuExtensions>,
    /// probability (of 256) that use_alpha is true
    pub alpha_chance: u32,
    pub max_pixels: u64,
    /// 0 = off; otherwise a rare class of 1..2-pixel-thin images with one side up to this value
    /// (sides of 65,536 and beyond, kernel lengths of 10^5)
    pub huge_max: u32,
}

impl Profile {
    pub fn standard() -> Profile {
        Profile {
            pts: img::PT13.to_vec(),
            size_weights: [20, 90, 100, 36, 10],
            long_max: 2048,
            allow_nearest: false,
            allow_custom: false,
            filters: (0..7).collect(),
            max_multiplicity: 5,
            crop_weights: [100, 156],
            allow_fit: false,
            content_classes: (0..=CONTENT_CLASSES as u8).collect(), // incl. class 10 = runs
            exts: img::exts(),
            alpha_chance: 128,
            max_pixels: 1 << 18,
            huge_max: 0,
        }
    }
}

pub fn next_down(x: f64) -> f64 {
    if x.is_nan() || x == f64::NEG_INFINITY {
        return x;
    }
    if x == 0.0 {
        return -f64::from_bits(1);
    }
    let b = x.to_bits();
    if x > 0.0 {
        f64::from_bits(b - 1)
    } else {
        f64::from_bits(b + 1)
    }
}

pub fn next_up(x: f64) -> f64 {
    -next_down(-x)
}

/// Decodes one side: returns (value, class)
pub fn decode_side(t: &mut Tape, weights: &[u32; 5], long_max: u32, allow_long: bool) -> (u32, u8) {
    let mut w = *weights;
    if !allow_long {
        w[4] = 0;
    }
    let class = t.weighted(&w);
    let v = match class {
        0 => 1,
        1 => t.range(2, 9),
        2 => t.range(10, 70),
        3 => t.range(71, 300),
        _ => {
            // long side: powers of two neighbourhood or uniform
            if t.bool() {
                t.range(301, long_max.max(302))
            } else {
                let p = t.range(9, 31 - (long_max.max(512)).leading_zeros());
                let base = 1u32 << p;
                (base + t.range(0, 4)).saturating_sub(2).min(long_max.max(302)).max(301)
            }
        }
    };
    (v, class as u8)
}

/// One axis of a crop box that the validator accepts: returns (origin, extent, class)
/// classes: 0 full, 1 integer inside, 2 fractional inside, 3 touching the far edge,
/// 4 sub-pixel, 5 sub-pixel flush against the far edge
pub fn decode_crop_axis(t: &mut Tape, n: u32) -> (f64, f64, u8) {
    let nf = n as f64;
    let class = t.weighted(&[40, 60, 70, 40, 23, 23, 40, 24]) as u8;
    let (mut l, mut w) = match class {
        7 => {
            // integer box whose origin and/or extent is one ulp off (exact-equality decisions of the pass logic)
            let k = t.range(0, n - 1);
            let m = t.range(1, n - k);
            let nudge = |t: &mut Tape, v: f64| -> f64 {
                match t.below(3) {
                    0 => v,
                    1 => next_down(v),
                    _ => next_up(v),
                }
            };
            let l = nudge(t, k as f64).max(0.0);
            let w = nudge(t, m as f64);
            (l, w)
        }
        6 => {
            // fractional origin, integer extent (a pure sub-pixel shift when the destination has that extent)
            if n < 2 {
                (0.0, nf)
            } else {
                let k = t.range(0, n - 2);
                let frac = match t.below(4) {
                    0 => 0.5,
                    1 => 0.25,
                    2 => 1e-7,
                    _ => t.unit().max(1e-9).min(1.0 - 1e-9),
                };
                let w = t.range(1, n - 1 - k);
                (k as f64 + frac, w as f64)
            }
        }
        0 => (0.0, nf),
        1 => {
            let l = t.range(0, n - 1);
            let w = t.range(1, n - l);
            (l as f64, w as f64)
        }
        2 => {
            let l = t.unit() * nf * 0.95;
            let w = (t.unit() * (nf - l)).max(nf * 1e-3);
            (l, w)
        }
        3 => {
            let l = t.unit() * nf * 0.95;
            (l, nf - l)
        }
        4 => {
            let e = t.range(0, 13);
            let l = t.unit() * nf * 0.999;
            let w = if e == 13 {
                // one ulp of the origin
                (next_up(l.max(f64::MIN_POSITIVE)) - l.max(f64::MIN_POSITIVE)).max(f64::from_bits(1))
            } else {
                10f64.powi(-(e as i32 + 1))
            };
            (l, w)
        }
        _ => {
            let e = t.range(0, 13);
            let w = if e == 13 {
                nf - next_down(nf)
            } else {
                10f64.powi(-(e as i32 + 1))
            };
            (nf - w, w)
        }
    };
    if l < 0.0 {
        l = 0.0;
    }
    // make sure the validator's own arithmetic accepts it: l < n and l + w <= n
    if l >= nf {
        l = next_down(nf);
    }
    let mut guard = 0;
    while l + w > nf && guard < 64 {
        w = next_down(w);
        guard += 1;
    }
    if l + w > nf || !(w > 0.0) {
        return (0.0, nf, 0);
    }
    (l, w, class)
}

pub fn decode_filter(t: &mut Tape, p: &Profile) -> FilterSpec {
    if p.allow_custom && t.chance(90) {
        FilterSpec::Custom(decode_custom(t, false))
    } else {
        FilterSpec::Builtin(t.pick(&p.filters))
    }
}

/// Custom kernels. `hostile` adds huge lobes, near-zero sums, denormals.
pub fn decode_custom(t: &mut Tape, hostile: bool) -> CustomParams {
    let support = match t.below(8) {
        0 => 0.5,
        1 => 1.0,
        2 => 1.5,
        3 => 2.0,
        4 => 3.0,
        5 => 4.0,
        6 => 6.0,
        _ => 0.5 + t.below(24) as f64 * 0.25,
    };
    let shape = t.below(if hostile { 8 } else { 6 });
    let mut pts = [0.0f64; 9];
    let step = t.chance(64);
    match shape {
        0 => {
            // triangle with a negative lobe of tunable depth
            let depth = t.below(64) as f64 / 16.0;
            for (i, p) in pts.iter_mut().enumerate() {
                let x = i as f64 / 8.0;
                *p = if x < 0.5 { 1.0 - 2.0 * x } else { -depth * (1.0 - x) * (x - 0.5) * 4.0 };
            }
        }
        1 => {
            // flat top with a tunable peak: forces small / large max weights
            let peak = 2f64.powi(t.below(12) as i32 - 4);
            for (i, p) in pts.iter_mut().enumerate() {
                *p = if i == 0 { peak } else { 1.0 };
            }
        }
        2 => {
            // alternating signs (ringing)
            let amp = 1.0 + t.below(32) as f64 / 8.0;
            for (i, p) in pts.iter_mut().enumerate() {
                *p = if i % 2 == 0 { amp } else { -amp * 0.9 };
            }
            pts[0] = amp * 1.5;
        }
        3 => {
            // random small integers in [-4, 12]
            for p in pts.iter_mut() {
                *p = t.below(17) as f64 - 4.0;
            }
        }
        4 => {
            // narrow spike: only the first segment is non-zero
            pts[0] = 1.0;
            pts[1] = t.below(8) as f64 / 8.0;
        }
        5 => {
            // smooth positive bump
            for (i, p) in pts.iter_mut().enumerate() {
                let x = i as f64 / 8.0;
                *p = (1.0 - x * x).max(0.0);
            }
        }
        6 => {
            // near-zero sum: +a and -a(1-eps)
            let eps = 10f64.powi(-(t.below(16) as i32));
            for (i, p) in pts.iter_mut().enumerate() {
                *p = if i % 2 == 0 { 1.0 } else { -(1.0 - eps) };
            }
        }
        _ => {
            // extreme magnitudes / denormals, finite
            for p in pts.iter_mut() {
                *p = match t.below(8) {
                    0 => 0.0,
                    1 => 1.0,
                    2 => -1.0,
                    3 => 1e300,
                    4 => -1e300,
                    5 => 5e-324,
                    6 => 1e-300,
                    _ => t.below(200) as f64 - 100.0,
                };
            }
        }
    }
    if !step {
        // the last control point is at |x| = support where the kernel must vanish anyway
    }
    let neg_scale = if t.chance(48) {
        [0.0, 0.5, -1.0, 2.0][t.below(4) as usize]
    } else {
        1.0
    };
    CustomParams {
        support,
        pts,
        step,
        neg_scale,
    }
}

pub fn decode_alg(t: &mut Tape, p: &Profile) -> AlgSpec {
    let kinds: u32 = if p.allow_nearest { 4 } else { 3 };
    let k = t.below(kinds);
    let k = if p.allow_nearest { k } else { k + 1 };
    match k {
        0 => AlgSpec::Nearest,
        1 => AlgSpec::Conv(decode_filter(t, p)),
        2 => AlgSpec::Interp(decode_filter(t, p)),
        _ => {
            let f = decode_filter(t, p);
            let m = 1 + t.below(p.max_multiplicity as u32) as u8;
            AlgSpec::Super(f, m)
        }
    }
}

pub fn decode_content(t: &mut Tape, p: &Profile) -> Content {
    // class 1 (random) is the most valuable; give it extra weight
    let class = if t.chance(110) {
        1
    } else {
        t.pick(&p.content_classes)
    };
    let seed = t.u32() as u64;
    Content { class, seed }
}

impl ResizeSpec {
    pub fn decode(t: &mut Tape, p: &Profile) -> ResizeSpec {
        let pt = t.pick(&p.pts);
        let alg = decode_alg(t, p);
        // sizes: at most one long side per image
        let (sw, c0) = decode_side(t, &p.size_weights, p.long_max, true);
        let (sh, _) = decode_side(t, &p.size_weights, p.long_max, c0 != 4);
        let dst_long = c0 == 4 || t.chance(40);
        let (dw, c2) = decode_side(t, &p.size_weights, p.long_max, dst_long);
        let (mut dh, _) = decode_side(t, &p.size_weights, p.long_max, c2 != 4 && c0 != 4);
        let mut sw = sw;
        let mut sh = sh;
        let mut dw = dw;
        // keep the work bounded
        while (sw as u64) * (sh as u64) > p.max_pixels {
            if sw > sh {
                sw = (sw / 2).max(1)
            } else {
                sh = (sh / 2).max(1)
            }
        }
        while (dw as u64) * (dh as u64) > p.max_pixels {
            if dw > dh {
                dw = (dw / 2).max(1)
            } else {
                dh = (dh / 2).max(1)
            }
        }
        if p.huge_max > 0 && t.chance(5) {
            const HUGE: [u32; 8] = [65535, 65536, 65537, 70001, 131072, 131075, 300007, 524288];
            let cands: Vec<u32> = HUGE.iter().copied().filter(|v| *v <= p.huge_max).collect();
            if !cands.is_empty() {
                let big = t.pick(&cands);
                let thin = 1 + t.below(2);
                let small = match t.below(5) {
                    0 => 1,
                    1 => 2,
                    2 => t.range(3, 100),
                    3 => (big / 2).max(1),
                    _ => big.saturating_add(1).min(p.huge_max),
                };
                if t.bool() {
                    sw = big;
                    sh = thin;
                    dw = small;
                    dh = 1 + t.below(2);
                } else {
                    sh = big;
                    sw = thin;
                    dh = small;
                    dw = 1 + t.below(2);
                }
            }
        }
        let content = decode_content(t, p);
        let has_crop = t.weighted(&p.crop_weights) == 1;
        let (mut crop, mut crop_class) = if has_crop {
            if p.allow_fit && t.chance(40) {
                let cx = [0.0, 0.5, 1.0, 0.25, -1.0, 2.0][t.below(6) as usize];
                let cy = [0.5, 0.0, 1.0, 0.75, 3.0, -0.5][t.below(6) as usize];
                (CropSpec::Fit(cx, cy), (9, 9))
            } else {
                let (l, w, cx) = decode_crop_axis(t, sw);
                let (tp, h, cy) = decode_crop_axis(t, sh);
                (CropSpec::Box { l, t: tp, w, h }, (cx, cy))
            }
        } else {
            (CropSpec::None, (0, 0))
        };
        let ext = t.pick(&p.exts);
        let use_alpha = t.chance(p.alpha_chance);
        // pass mode: make single-pass and shift-only geometries common
        let (dw0, dh0) = (dw, dh);
        if !matches!(crop, CropSpec::Fit(_, _)) {
            let (cw, ch) = match crop {
                CropSpec::Box { w, h, .. } => (w, h),
                _ => (sw as f64, sh as f64),
            };
            let near_int = |v: f64| (v - v.round()).abs() <= 4.0 * f64::EPSILON * v.abs().max(1.0) && v.round() >= 1.0 && v <= 600000.0;
            let int_w = near_int(cw);
            let int_h = near_int(ch);
            match t.weighted(&[150, 32, 32, 22, 20, 12]) {
                5 => {
                    // both axes share every parameter although the source is not square
                    // (code that reuses one axis' tables for the other shows up only here)
                    let m = sw.min(sh);
                    let (l0, w0) = match crop {
                        CropSpec::Box { l, w, .. } if l + w <= m as f64 => (l, w),
                        _ => (0.0, m as f64),
                    };
                    crop = CropSpec::Box { l: l0, t: l0, w: w0, h: w0 };
                    crop_class = (crop_class.0, crop_class.0);
                    dh = dw;
                }
                1 if int_h => dh = ch.round() as u32,
                2 if int_w => dw = cw.round() as u32,
                3 => {
                    if int_h {
                        dh = ch.round() as u32
                    }
                    if int_w {
                        dw = cw.round() as u32
                    }
                }
                4 => {
                    // keep the aspect ratio (what most callers do): dh follows dw
                    if cw > 0.0 && ch > 0.0 {
                        let v = (dw as f64 * ch / cw).round();
                        if v >= 1.0 && v * (dw as f64) <= p.max_pixels as f64 {
                            dh = v as u32;
                        }
                    }
                }
                _ => {}
            }
        }
        if dw as u64 * dh as u64 > (p.max_pixels.max(1 << 20)) {
            // a forced geometry may not blow the destination up
            dw = dw0;
            dh = dh0;
        }
        ResizeSpec {
            pt,
            sw,
            sh,
            dw,
            dh,
            crop,
            crop_class,
            alg,
            use_alpha,
            ext,
            content,
        }
    }
}

pub fn crop_class_name(c: u8) -> &'static str {
    match c {
        0 => "full",
        1 => "int",
        2 => "frac",
        3 => "edge",
        4 => "subpix",
        5 => "subpix-edge",
        6 => "shifted-int",
        7 => "ulp-neighbour",
        _ => "fit",
    }
}
