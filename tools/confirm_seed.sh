#!/bin/bash
# confirm_seed.sh <worktree> <k>: confirms a seeded change in its scratch worktree:
#  (1) patch applies, crate builds; (2) the 65 baseline tests still pass; (3) demo fails with / passes without the patch.
# Writes <worktree>/SEED/<k>/confirm.json
set -u
WT="$1"; K="$2"
S="$WT/SEED/$K"
cd "$WT" || exit 2
export CARGO_NET_OFFLINE=true
git checkout -q -- src 2>/dev/null
rm -f tests/seed_demo_confirm.rs
cp "$S/demo.rs" tests/seed_demo_confirm.rs
res() { python3 - "$@" <<'PY'
import sys,json
print(json.dumps(sys.argv[1:]))
PY
}
# demo without patch
cargo test --offline ${FEATS:-} --test seed_demo_confirm >"$S/confirm_demo_orig.log" 2>&1; DEMO_ORIG=$?
if ! git apply --check "$S/patch.diff" 2>/dev/null; then echo '{"applies":false}' >"$S/confirm.json"; rm -f tests/seed_demo_confirm.rs; exit 1; fi
git apply "$S/patch.diff"
cargo test --offline ${FEATS:-} --test seed_demo_confirm >"$S/confirm_demo_mut.log" 2>&1; DEMO_MUT=$?
rm -f tests/seed_demo_confirm.rs
cargo test --workspace --no-fail-fast --offline >"$S/confirm_suite.log" 2>&1
python3 - "$S/confirm_suite.log" "$DEMO_ORIG" "$DEMO_MUT" >"$S/confirm.json" <<'PY'
import json,re,sys
base=json.load(open('/root/.vp/BASELINE.json'))
want=set(base['stable_pass'])
txt=open(sys.argv[1]).read()
names=set(); cur=None
for line in txt.splitlines():
    m=re.match(r'\s*Running (?:unittests )?(\S+) \(target/\S+/deps/([A-Za-z0-9_]+)-[0-9a-f]+\)',line)
    if m: cur=(m.group(1),m.group(2)); continue
    m=re.match(r'\s*Doc-tests (\S+)',line)
    if m: cur=('doc',m.group(1)); continue
    m=re.match(r'test (\S+) \.\.\. ok',line)
    if m and cur and cur[0]!='doc':
        b=cur[1]; t=m.group(1)
        if b=='resizer': names.add('resizer::bin/resizer::'+t)
        elif b=='fast_image_resize': names.add('fast_image_resize::'+t)
        else: names.add('fast_image_resize::'+b+'::'+t)
missing=sorted(want-names)
print(json.dumps({"applies":True,"baseline_passing":len(want&names),"baseline_missing":missing,
  "demo_rc_original":int(sys.argv[2]),"demo_rc_mutant":int(sys.argv[3]),
  "confirmed": (not missing) and int(sys.argv[2])==0 and int(sys.argv[3])!=0}))
PY
git checkout -q -- src
cat "$S/confirm.json"
