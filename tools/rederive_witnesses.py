#!/usr/bin/env python3
"""For every `fixed` finding: revert its fix commit in /repo's working tree (nothing is committed), run the
property's quick check, and store the (shrunk) violation it reports as the finding's witness tape.
This re-derives witnesses after a tape decoder changed and proves each check still detects each defect alone."""
import json,subprocess,sys,os,shutil
kf='/verif/known_findings.json'
d=json.load(open(kf))
only=set(sys.argv[1:])
def sh(*a,**k): return subprocess.run(*a,shell=True,capture_output=True,text=True,**k)
assert sh('git -C /repo status --porcelain -- src').stdout.strip()=='' , '/repo not clean'
for e in d['findings']:
    if e['status']!='fixed' or (only and e['key'] not in only): continue
    if e['key']=='F5b':
        continue  # same commit as F5; handled below with its own property
for e in d['findings']:
    if e['status']!='fixed' or (only and e['key'] not in only): continue
    r=sh(f"git -C /repo revert -n {e['commit']}")
    if r.returncode!=0:
        sh('git -C /repo revert --abort; git -C /repo reset -q --hard HEAD')
        print(e['key'],'REVERT-CONFLICT'); continue
    out=sh(f"cd /verif && ./run.sh {e['property']} quick")
    sh('git -C /repo reset -q --hard HEAD')
    sh('git -C /verif checkout -- evidence')
    line=[l for l in out.stdout.splitlines() if l.startswith('VIOLATION')]
    if not line:
        print(e['key'],e['property'],'NOT DETECTED with the fix reverted'); continue
    path=line[0].split('replay=')[1].strip()
    v=json.load(open(path))
    dst='/verif/'+e['witness_file']
    json.dump(v,open(dst,'w'),indent=1)
    e['witness_tape']=v['tape_hex']; e['witness_decoded']=v['decoded']; e['witness_message']=v['message']
    print(e['key'],e['property'],'ok:',v['message'][:140])
    json.dump(d,open(kf,'w'),indent=1)
