#!/bin/bash
# eval_seed.sh <patch.diff> <outdir> <prop> [<prop>...]: apply a seeded change to /repo, run the quick checks, undo.
set -u
PATCH="$1"; OUT="$2"; shift 2
mkdir -p "$OUT"
cd /verif
if [ -n "$(git -C /repo status --porcelain -- src)" ]; then echo "/repo not clean"; exit 2; fi
git -C /repo apply "$PATCH" || { echo "patch does not apply"; exit 2; }
for p in "$@"; do
  timeout 3000 ./run.sh "$p" quick >"$OUT/$p.log" 2>&1; rc=$?
  echo "$p rc=$rc $(grep -m1 '  reason:' "$OUT/$p.log" | cut -c1-220)"
done
git -C /repo checkout -- .
# restore evidence files written during the mutated run
git -C /verif checkout -- evidence 2>/dev/null
